/* contracts/it_cursor.h - GHOST CURSORS: child iterators for the iterator layers
 * (merger.c, two_level_iterator.c, db_iter.c).
 *
 * A child is an ldb_iter_t whose vtable functions operate on an abstract sorted
 * array kept in ghost state: CUR[c].len entries, key i = CUR_KW bytes
 * CUR_KEY[c][i][..] with size CUR_KSIZE[c][i], value i = the 1-byte slice
 * &CUR_VAL[c][i].  CUR[c].pos is the position, pos == len meaning "not valid".
 * Semantics = the documentation of ldb_itertbl_t in table/iterator.h:
 *   first/last/seek position (seek: first entry >= target under CUR_COMPARE),
 *   next/prev/key/value REQUIRE valid() (asserted), next from the last entry and
 *   prev from the first entry make the cursor invalid, status returns CUR[c].status.
 * The including unit defines CUR_NCH, CUR_MAXLEN, CUR_KW and
 *   int CUR_COMPARE(const uint8_t *a, size_t an, const uint8_t *b, size_t bn)
 * (the order the children are sorted by) before including this file.
 */
#ifndef VERIF_IT_CURSOR_H
#define VERIF_IT_CURSOR_H

struct cur_child {
  int len;                             /* 0 .. CUR_MAXLEN                           */
  int pos;                             /* 0 .. len ; len = not valid                */
  int status;                          /* what status() reports                     */
  int ops;                             /* positioning calls received                */
};
struct cur_child CUR[CUR_NCH];
/* key / value bytes live in flat byte arrays of their own (cheap to dereference) */
uint8_t CUR_KEY[CUR_NCH][CUR_MAXLEN][CUR_KW];
size_t CUR_KSIZE[CUR_NCH][CUR_MAXLEN];
uint8_t CUR_VAL[CUR_NCH][CUR_MAXLEN];
ldb_iter_t CUR_ITER[CUR_NCH];          /* the ldb_iter_t handed to the layer under test */

static int cur_index(const void *p) {
  int c = (int)((const struct cur_child *)p - CUR);
  __CPROVER_assert(__CPROVER_same_object(p, CUR) && c >= 0 && c < CUR_NCH && p == (const void *)&CUR[c], "child op: receiver is one of the children");
  return c;
}
#define CUR_VALID(c) (CUR[c].pos < CUR[c].len)

static void cur_clear(void *p) { (void)p; }
static int cur_valid(const void *p) { int c = cur_index(p); return CUR_VALID(c); }
static void cur_first(void *p) { int c = cur_index(p); CUR[c].pos = 0; CUR[c].ops++; }
static void cur_last(void *p) { int c = cur_index(p); CUR[c].pos = CUR[c].len > 0 ? CUR[c].len - 1 : CUR[c].len; CUR[c].ops++; }
static void cur_seek(void *p, const ldb_slice_t *t) {
  int c = cur_index(p), i, r = CUR[c].len;
  for (i = CUR_MAXLEN - 1; i >= 0; i--)
    if (i < CUR[c].len && CUR_COMPARE(CUR_KEY[c][i], CUR_KSIZE[c][i], t->data, t->size) >= 0)
      r = i;
  CUR[c].pos = r; CUR[c].ops++;
}
static void cur_next(void *p) {
  int c = cur_index(p);
  __CPROVER_assert(CUR_VALID(c), "child next: REQUIRES valid()");
  CUR[c].pos++; CUR[c].ops++;
}
static void cur_prev(void *p) {
  int c = cur_index(p);
  __CPROVER_assert(CUR_VALID(c), "child prev: REQUIRES valid()");
  CUR[c].pos = CUR[c].pos > 0 ? CUR[c].pos - 1 : CUR[c].len; CUR[c].ops++;
}
static ldb_slice_t cur_key(const void *p) {
  int c = cur_index(p); ldb_slice_t k = {NULL, 0, 0};
  __CPROVER_assert(CUR_VALID(c), "child key: REQUIRES valid()");
  if (CUR_VALID(c)) { k.data = CUR_KEY[c][CUR[c].pos]; k.size = CUR_KSIZE[c][CUR[c].pos]; }
  return k;
}
static ldb_slice_t cur_value(const void *p) {
  int c = cur_index(p); ldb_slice_t v = {NULL, 0, 0};
  __CPROVER_assert(CUR_VALID(c), "child value: REQUIRES valid()");
  if (CUR_VALID(c)) { v.data = &CUR_VAL[c][CUR[c].pos]; v.size = 1; }
  return v;
}
static int cur_status(const void *p) { int c = cur_index(p); return CUR[c].status; }

static const ldb_itertbl_t cur_table = {
  cur_clear, cur_valid, cur_first, cur_last, cur_seek, cur_next, cur_prev, cur_key, cur_value, cur_status
};

#endif
