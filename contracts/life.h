/* contracts/life.h - ghost state and call carriers of the lifecycle units (src/db_impl.c):
 *   c_new_db   : ldb_new_db  (enforced in life.newdb, used by life.recover)
 *   c_recover  : ldb_recover (enforced in life.recover_call, used by life.open)
 * Include after db_impl.c and contracts/dbgc.h (g_db, g_held, g_gc_allowed). */
#ifndef VERIF_CONTRACTS_LIFE_H
#define VERIF_CONTRACTS_LIFE_H

/* ------------------------------------------------------------ new database */
/* ghost of the MANIFEST-000001 / CURRENT creation; one object = one assigns target */
struct newdb_ghost {
  unsigned calls;                 /* ldb_new_db invocations (counted by the MANIFEST name builder)   */
  int cur_installed;              /* CURRENT was switched to MANIFEST-000001 successfully              */
  int name_ok; uint64_t desc_number;
  unsigned creates, create_ok, winit, exports, appends, append_ok, syncs, sync_ok, closes, close_ok, fdestroy, removes, setcur_calls;
  uint64_t setcur_number;
  unsigned long clock, t_create, t_append, t_sync, t_close, t_setcur, t_remove;
  /* the edit as exported into the record */
  int x_has_cmp, x_has_log, x_has_next, x_has_seq, x_has_prev; const char *x_cmp_name, *edit_cmp_name; uint64_t x_log, x_next, x_seq;
  unsigned edit_inits, edit_clears, buf_inits, buf_clears;
} NG;

/* the database LOCK as seen by the lifecycle functions */
struct lifelock_ghost {
  int locked;                     /* this handle holds the LOCK of the directory                       */
  unsigned lock_calls, unlock_calls;
} KG;

#define NEWDB_WRITTEN (NG.create_ok == 1 && NG.append_ok == 1 && NG.sync_ok == 1 && NG.close_ok == 1 && \
                       NG.t_create < NG.t_append && NG.t_append < NG.t_sync && NG.t_sync < NG.t_close)

int c_new_db(ldb_t *db)
__CPROVER_requires(db == g_db && g_held && KG.locked)
__CPROVER_requires(NG.calls == 0 && NG.cur_installed == 0 && NG.creates == 0 && NG.create_ok == 0 && NG.winit == 0 && NG.exports == 0 && NG.appends == 0 && NG.append_ok == 0 &&
   NG.syncs == 0 && NG.sync_ok == 0 && NG.closes == 0 && NG.close_ok == 0 && NG.fdestroy == 0 && NG.removes == 0 && NG.setcur_calls == 0 && NG.clock == 0 &&
   NG.edit_inits == 0 && NG.edit_clears == 0 && NG.buf_inits == 0 && NG.buf_clears == 0)
__CPROVER_assigns(NG)
__CPROVER_ensures(NG.calls == 1)
/* OK <=> CURRENT now names MANIFEST-000001 */
__CPROVER_ensures((__CPROVER_return_value == LDB_OK) == (NG.cur_installed == 1))
/* CURRENT is switched only after the MANIFEST was created, its single record appended, fsynced and the file closed - in that order */
__CPROVER_ensures(NG.setcur_calls <= 1 && (NG.setcur_calls == 1 ==> (NEWDB_WRITTEN && NG.t_close < NG.t_setcur && NG.setcur_number == 1 && NG.desc_number == 1)))
__CPROVER_ensures(__CPROVER_return_value == LDB_OK ==> (NG.setcur_calls == 1 && NG.removes == 0))
/* the record: comparator name of the DB's user comparator, log number 0, next file 2, last sequence 0; exported exactly once, into an empty file */
__CPROVER_ensures(NG.appends <= 1 && (NG.appends == 1 ==> (NG.exports == 1 && NG.winit == 1 && NG.x_has_cmp && NG.x_cmp_name == db->internal_comparator.user_comparator->name &&
   NG.x_has_log && NG.x_log == 0 && NG.x_has_next && NG.x_next == 2 && NG.x_has_seq && NG.x_seq == 0 && !NG.x_has_prev)))
/* each step only after the previous one succeeded */
__CPROVER_ensures((NG.appends == (NG.create_ok ? 1u : 0u)) && (NG.syncs == (NG.append_ok ? 1u : 0u)) && (NG.closes == (NG.sync_ok ? 1u : 0u)))
/* a MANIFEST that could not be written completely is removed (after its descriptor was released) and CURRENT is not touched */
__CPROVER_ensures((NG.create_ok == 1 && !(NG.append_ok && NG.sync_ok && NG.close_ok)) ==> (__CPROVER_return_value != LDB_OK && NG.removes == 1 && NG.setcur_calls == 0 && NG.t_remove > NG.t_create))
__CPROVER_ensures(NG.create_ok == 0 ==> (__CPROVER_return_value != LDB_OK && NG.removes == 0 && NG.setcur_calls == 0 && NG.appends == 0 && NG.fdestroy == 0))
/* the file object is released exactly once on every path that created it; edit and record buffer are released */
__CPROVER_ensures(NG.fdestroy == NG.create_ok && NG.edit_inits == NG.edit_clears && NG.buf_inits == NG.buf_clears && NG.creates <= 1)
__CPROVER_ensures(g_held)
;

/* ---------------------------------------------------------------- recovery */
#define LIFE_MAXDIR 4
struct recover_ghost {
  /* inputs: what is on disk */
  int db_exists;                  /* CURRENT exists                                                    */
  int dlen;                       /* directory listing length (-1 = listing fails), <= LIFE_MAXDIR     */
  int parses[LIFE_MAXDIR]; ldb_filetype_t type[LIFE_MAXDIR]; uint64_t num[LIFE_MAXDIR];
  int nexp; uint64_t exp[2];      /* table numbers of the recovered version (<= 2, distinct)           */
  int exp_present[2];
  /* trace */
  unsigned mkdirs, exists_calls, vrecover_calls, children_calls, addfiles_calls, set_inits, set_clears, arr_inits, arr_clears, sorts, free_children;
  int vrecover_rc; int lock_rc;
  uint64_t seq_manifest;          /* last_sequence after ldb_versions_recover                          */
  unsigned nmarked; uint64_t marked[LIFE_MAXDIR];
  unsigned parse_calls;
} RG;

/* trace of the log replays (written by the ghost contract of ldb_recover_log_file) */
struct replay_ghost {
  unsigned n; uint64_t replayed[LIFE_MAXDIR]; int lastflag[LIFE_MAXDIR]; int rc[LIFE_MAXDIR];
  uint64_t maxseq;                /* running maximum reported by the log replays                       */
  int saved_by_replay;            /* a replay produced a table / could not reuse its log: edit must be saved */
} TG;
/* what a replay that reuses its log hands back */
ldb_wfile_t *g_rlogfile; ldb_writer_t *g_rlog; ldb_memtable_t *g_rmem;

/* ghost contract of ldb_recover_log_file as ldb_recover sees it (functional spec: db.recoverlog):
   records (number, last_log flag, status); arbitrary status; max_sequence only grows; may demand a MANIFEST save
   (a level-0 table was written - its edit is pending, so nothing may be garbage-collected before it is applied);
   the last log may be handed back for reuse together with its memtable */
int c_recover_log_file(ldb_t *db, uint64_t log_number, int last_log, int *save_manifest, ldb_edit_t *edit, ldb_seqnum_t *max_sequence)
__CPROVER_requires(db == g_db && g_held && KG.locked)
/* obligations on the caller */
__CPROVER_requires(TG.n < LIFE_MAXDIR)
__CPROVER_requires(RG.nmarked == TG.n)
__CPROVER_requires(*max_sequence == TG.maxseq)
__CPROVER_requires(RG.set_clears == 0 && RG.sorts == 1)
__CPROVER_requires(*save_manifest == 0 || *save_manifest == 1)
__CPROVER_assigns(TG.n, TG.replayed[TG.n], TG.lastflag[TG.n], TG.rc[TG.n], TG.maxseq, TG.saved_by_replay, *save_manifest, *max_sequence, g_gc_allowed,
                  db->logfile, db->log, db->mem, db->logfile_number)
__CPROVER_ensures(TG.n == __CPROVER_old(TG.n) + 1 && TG.replayed[__CPROVER_old(TG.n)] == log_number && TG.lastflag[__CPROVER_old(TG.n)] == last_log &&
                  TG.rc[__CPROVER_old(TG.n)] == __CPROVER_return_value)
__CPROVER_ensures(*max_sequence >= __CPROVER_old(*max_sequence) && TG.maxseq == *max_sequence)
__CPROVER_ensures(__CPROVER_return_value != LDB_OK ==> *max_sequence == __CPROVER_old(*max_sequence))
__CPROVER_ensures((*save_manifest == __CPROVER_old(*save_manifest) && g_gc_allowed == __CPROVER_old(g_gc_allowed) && TG.saved_by_replay == __CPROVER_old(TG.saved_by_replay)) ||
                  (*save_manifest == 1 && g_gc_allowed == 0 && TG.saved_by_replay == 1))
__CPROVER_ensures((db->logfile == __CPROVER_old(db->logfile) && db->log == __CPROVER_old(db->log) && db->mem == __CPROVER_old(db->mem) && db->logfile_number == __CPROVER_old(db->logfile_number)) ||
                  (__CPROVER_return_value == LDB_OK && last_log && db->logfile == g_rlogfile && db->log == g_rlog && db->mem == g_rmem && db->logfile_number == log_number))
;

ldb_filelock_t *g_lock_obj_p;     /* the lock object handed out by the ldb_lock_file model */

/* call protocol of ldb_recover as ldb_open relies on it */
int c_recover(ldb_t *db, ldb_edit_t *edit, int *save_manifest)
__CPROVER_requires(db == g_db && g_held && db->db_lock == NULL && !KG.locked && KG.lock_calls == 0 && KG.unlock_calls == 0)
__CPROVER_requires(__CPROVER_rw_ok(save_manifest, sizeof(*save_manifest)) && *save_manifest == 0 && db->mem == NULL && db->log == NULL && db->logfile == NULL)
__CPROVER_requires(NG.calls == 0 && NG.cur_installed == 0)
__CPROVER_assigns(RG, TG, NG, KG, g_gc_allowed, *save_manifest, db->db_lock, db->mem, db->log, db->logfile, db->logfile_number,
                  db->versions->log_number, db->versions->prev_log_number, db->versions->last_sequence, db->versions->next_file_number)
__CPROVER_ensures(g_held)
/* the handle owns the LOCK exactly when db_lock is set (so that a failed open can release it) */
__CPROVER_ensures((db->db_lock != NULL) == (KG.locked == 1) && (KG.locked == 0 || KG.locked == 1) && KG.unlock_calls == 0 && KG.lock_calls <= 1)
__CPROVER_ensures(__CPROVER_return_value == LDB_OK ==> KG.locked == 1)
/* after a successful recovery garbage may be collected at once only if nothing recovered still waits for a MANIFEST edit */
__CPROVER_ensures(__CPROVER_return_value == LDB_OK ==> (g_gc_allowed || *save_manifest == 1))
__CPROVER_ensures(*save_manifest == 0 || *save_manifest == 1)
__CPROVER_ensures(db->db_lock == NULL || db->db_lock == g_lock_obj_p)
/* a memtable is handed back only together with the reused log it belongs to (all three, or none) */
__CPROVER_ensures((db->mem == NULL && db->log == NULL && db->logfile == NULL) || (db->mem == g_rmem && db->log == g_rlog && db->logfile == g_rlogfile && g_rmem != NULL && g_rlog != NULL && g_rlogfile != NULL))
/* G4/P4: the file-number allocator ends above every log that was replayed */
__CPROVER_ensures(__CPROVER_return_value == LDB_OK ==> ((TG.n < 1 || db->versions->next_file_number > TG.replayed[0]) && (TG.n < 2 || db->versions->next_file_number > TG.replayed[1]) &&
   (TG.n < 3 || db->versions->next_file_number > TG.replayed[2]) && (TG.n < 4 || db->versions->next_file_number > TG.replayed[3])))
;
#endif
