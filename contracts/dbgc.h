/* contracts/dbgc.h - ghost state of the garbage-collection model and the call-protocol carrier of
 * ldb_remove_obsolete_files shared by its callers' units. */
#ifndef VERIF_CONTRACTS_DBGC_H
#define VERIF_CONTRACTS_DBGC_H

ldb_t *g_db;
int g_held; unsigned g_locks, g_unlocks;
/* directory model */
int g_len;                    /* number of entries returned by ldb_get_children (or -1)   */
char **g_filenames;           /* array of g_len names; name i is the pointer g_name_base+i */
char *g_name_base;
int g_k;                      /* the tracked entry                                         */
int g_parses_k; ldb_filetype_t g_type_k; uint64_t g_num_k;   /* what its name parses to    */
int g_pending_k, g_inversion_k;   /* its number is in pending_outputs / in some live version */
int g_copied_pending, g_added_versions, g_children_calls;
unsigned g_pushed_k, g_evicted_k, g_removed_k, g_removed_total, g_pushed_total;
const char *g_join_name;
int g_live_inited;
int g_cur_parse_idx, g_cur_join_idx;
int g_parse_calls, g_join_calls;   /* entries are visited in order: call number = index */
size_t g_pos_k;                   /* position of the tracked name on the delete list */
int g_joined_k;                   /* its path could be formed */
int g_keep_k;                     /* KEEP_K evaluated at entry (versions' counters do not change during gc) */


/* caller-side protocol: garbage is collected only when the on-disk version set is known to be current */
int g_gc_allowed;             /* set by the caller's model when a MANIFEST edit was applied OK / recovery finished */
unsigned g_gc_calls;
/* table files that exist on disk but are protected by NOTHING: their number has left pending_outputs and the version naming
 * them is not installed yet (the window between rb_set64_del(&pending_outputs) in ldb_write_level0_table and the end of
 * ldb_versions_apply, which releases the mutex around the MANIFEST write).  The window belongs to the thread doing the
 * flush; any OTHER thread that takes the mutex may find it open. */
unsigned g_unprotected_outputs;

#define DBGC_GHOST g_held, g_locks, g_unlocks, g_copied_pending, g_added_versions, g_children_calls, g_pushed_k, g_evicted_k, g_removed_k, \
  g_removed_total, g_pushed_total, g_join_name, g_live_inited, g_parse_calls, g_join_calls, g_pos_k, g_joined_k, g_cur_parse_idx, g_cur_join_idx

void c_gc_call(ldb_t *db)
__CPROVER_requires(db == g_db && g_held)
/* obligation on every caller: only after the edit that makes files obsolete is durable (ldb_versions_apply OK) or right after recovery */
__CPROVER_requires(g_gc_allowed || db->bg_error != LDB_OK)
/* obligation on every caller: no output of an in-progress flush/compaction is outside pending_outputs and outside every version */
__CPROVER_requires(g_unprotected_outputs == 0 || db->bg_error != LDB_OK)
__CPROVER_assigns(DBGC_GHOST, g_gc_calls)
__CPROVER_ensures(g_held && g_locks - __CPROVER_old(g_locks) == g_unlocks - __CPROVER_old(g_unlocks))
/* observable effect for callers: without a latched error the live set was really computed (the collection ran) */
__CPROVER_ensures(db->bg_error == LDB_OK ==> (g_copied_pending && g_added_versions))
__CPROVER_ensures(db->bg_error != LDB_OK ==> (g_copied_pending == __CPROVER_old(g_copied_pending) && g_removed_total == __CPROVER_old(g_removed_total)))
;
#endif
