/* contracts/tblfmt.h - specification of the table-file handle / footer wire
 * format (LevelDB table_format.md), independent of src/table/format.c:
 *
 *   BlockHandle := varint64(offset) varint64(size)
 *   Footer      := BlockHandle(metaindex) BlockHandle(index) zero-padding to 40 bytes
 *                  fixed64-LE(0xdb4775248b80fb57)                  == exactly 48 bytes
 *
 * The spec is written as loop-free pure functions over (pointer, length) so
 * that the same text serves in __CPROVER_ensures, in harness CHECKs and in the
 * native replay twin.
 */
#ifndef VERIF_CONTRACTS_TBLFMT_H
#define VERIF_CONTRACTS_TBLFMT_H

#include <stdint.h>
#include <stddef.h>
#include "contracts/coding.h"

#define SPEC_TABLE_MAGIC 0xdb4775248b80fb57ull
#define SPEC_FOOTER_SIZE 48
#define SPEC_FOOTER_PAD_END 40

/* The spec functions first copy the (at most 40) bytes that can matter into a
 * local window w[50]; bytes beyond the input are represented by 0x80
 * ("continuation, no payload"), which can never terminate a varint, so every
 * length limit is respected without reading outside the input. */
#define SPEC_LD_(w, p, n, j) (w)[j] = ((n) > (size_t)(j)) ? (p)[j] : (uint8_t)0x80
#define SPEC_LD10_(w, p, n, j) SPEC_LD_(w,p,n,(j)+0); SPEC_LD_(w,p,n,(j)+1); SPEC_LD_(w,p,n,(j)+2); SPEC_LD_(w,p,n,(j)+3); SPEC_LD_(w,p,n,(j)+4); \
  SPEC_LD_(w,p,n,(j)+5); SPEC_LD_(w,p,n,(j)+6); SPEC_LD_(w,p,n,(j)+7); SPEC_LD_(w,p,n,(j)+8); SPEC_LD_(w,p,n,(j)+9)
#define SPEC_PAD10_(w, j) (w)[(j)+0] = 0x80; (w)[(j)+1] = 0x80; (w)[(j)+2] = 0x80; (w)[(j)+3] = 0x80; (w)[(j)+4] = 0x80; \
  (w)[(j)+5] = 0x80; (w)[(j)+6] = 0x80; (w)[(j)+7] = 0x80; (w)[(j)+8] = 0x80; (w)[(j)+9] = 0x80
#define SPEC_WINDOW20(w, p, n) uint8_t w[30]; SPEC_LD10_(w,p,n,0); SPEC_LD10_(w,p,n,10); SPEC_PAD10_(w,20)
#define SPEC_WINDOW(w, p, n) uint8_t w[50]; SPEC_LD10_(w,p,n,0); SPEC_LD10_(w,p,n,10); SPEC_LD10_(w,p,n,20); SPEC_LD10_(w,p,n,30); SPEC_PAD10_(w,40)

/* length of the LEB128 group sequence starting at w[s] (s <= 40): index of the
 * first byte without continuation bit, plus one, at most 10; 0 = none.
 * (Macros over the local array: w never has its address taken, which keeps the
 * dfcc instrumentation of these pure functions cheap.) */
#define SPEC_T_(w, s, j) (((w)[(s) + (j)] & 128) == 0)
#define SPEC_WLEN(w, s) ((size_t)(SPEC_T_(w, s, 0) ? 1 : SPEC_T_(w, s, 1) ? 2 : SPEC_T_(w, s, 2) ? 3 : SPEC_T_(w, s, 3) ? 4 : \
         SPEC_T_(w, s, 4) ? 5 : SPEC_T_(w, s, 5) ? 6 : SPEC_T_(w, s, 6) ? 7 : SPEC_T_(w, s, 7) ? 8 : \
         SPEC_T_(w, s, 8) ? 9 : SPEC_T_(w, s, 9) ? 10 : 0))
/* value of the k-byte LEB128 sequence at w[s], truncated to 64 bits */
#define SPEC_G_(w, s, j, k) (((size_t)(j) < (k) ? (uint64_t)((w)[(s) + (j)] & 127) : (uint64_t)0) << (7 * (j)))
#define SPEC_WVAL(w, s, k) ((uint64_t)(SPEC_G_(w,s,0,k) | SPEC_G_(w,s,1,k) | SPEC_G_(w,s,2,k) | SPEC_G_(w,s,3,k) | SPEC_G_(w,s,4,k) | \
         SPEC_G_(w,s,5,k) | SPEC_G_(w,s,6,k) | SPEC_G_(w,s,7,k) | SPEC_G_(w,s,8,k) | SPEC_G_(w,s,9,k)))

static size_t spec_v64_len(const uint8_t *p, size_t n) { SPEC_WINDOW20(w, p, n); return SPEC_WLEN(w, 0); }

/* encoded length of a handle at (p, n); 0 = no well-formed handle there */
static size_t spec_handle_len(const uint8_t *p, size_t n) {
  SPEC_WINDOW20(w, p, n);
  size_t k1 = SPEC_WLEN(w, 0);
  size_t k2 = k1 ? SPEC_WLEN(w, k1) : 0;
  return (k1 && k2) ? k1 + k2 : 0;
}
static uint64_t spec_handle_offset(const uint8_t *p, size_t n) {
  SPEC_WINDOW20(w, p, n);
  size_t k1 = SPEC_WLEN(w, 0);
  return SPEC_WVAL(w, 0, k1);
}
static uint64_t spec_handle_size(const uint8_t *p, size_t n) {
  SPEC_WINDOW20(w, p, n);
  size_t k1 = SPEC_WLEN(w, 0);
  size_t k2 = SPEC_WLEN(w, k1);
  return SPEC_WVAL(w, k1, k2);
}
/* the second of two consecutive handles at (p, n) (footer: index handle) */
static size_t spec_handle2_len(const uint8_t *p, size_t n) {
  SPEC_WINDOW(w, p, n);
  size_t k1 = SPEC_WLEN(w, 0);
  size_t k2 = k1 ? SPEC_WLEN(w, k1) : 0;
  size_t k3 = k2 ? SPEC_WLEN(w, k1 + k2) : 0;
  size_t k4 = k3 ? SPEC_WLEN(w, k1 + k2 + k3) : 0;
  return (k3 && k4) ? k3 + k4 : 0;
}
static uint64_t spec_handle2_offset(const uint8_t *p, size_t n) {
  SPEC_WINDOW(w, p, n);
  size_t k1 = SPEC_WLEN(w, 0);
  size_t k2 = SPEC_WLEN(w, k1);
  size_t k3 = SPEC_WLEN(w, k1 + k2);
  return SPEC_WVAL(w, k1 + k2, k3);
}
static uint64_t spec_handle2_size(const uint8_t *p, size_t n) {
  SPEC_WINDOW(w, p, n);
  size_t k1 = SPEC_WLEN(w, 0);
  size_t k2 = SPEC_WLEN(w, k1);
  size_t k3 = SPEC_WLEN(w, k1 + k2);
  size_t k4 = SPEC_WLEN(w, k1 + k2 + k3);
  return SPEC_WVAL(w, k1 + k2 + k3, k4);
}

/* reader of one handle: r result, (off, size) decoded, (p1,n1) cursor after, (p0,n0) before */
#define POST_HANDLE_READ_RET(r, p0, n0) ((r) == (spec_handle_len(p0, n0) != 0 ? 1 : 0))
#define POST_HANDLE_READ_OK(r, off, sz, p1, n1, p0, n0) \
  ((r) != 1 || ((off) == spec_handle_offset(p0, n0) && (sz) == spec_handle_size(p0, n0) && \
                (n1) == (n0) - spec_handle_len(p0, n0) && (p1) == (p0) + spec_handle_len(p0, n0)))
#define POST_HANDLE_READ_FAIL(r, p1, n1, p0, n0) \
  ((r) != 0 || ((n1) <= (n0) && (p1) == (p0) + ((n0) - (n1))))

/* writer of one handle: e = returned end pointer.  The canonical (shortest)
 * LEB128 encoding is pinned by the lengths V64_SIZE. */
static int spec_handle_is(const uint8_t *zp, uint64_t off, uint64_t sz) {
  size_t k1 = V64_SIZE(off), k2 = V64_SIZE(sz);
  SPEC_WINDOW20(w, zp, k1 + k2);
  return SPEC_WLEN(w, 0) == k1 && SPEC_WVAL(w, 0, k1) == off && SPEC_WLEN(w, k1) == k2 && SPEC_WVAL(w, k1, k2) == sz;
}
#define SPEC_HLEN(off, sz) ((size_t)(V64_SIZE(off) + V64_SIZE(sz)))
#define POST_HANDLE_WRITE(e, zp, off, sz) ((e) == (zp) + SPEC_HLEN(off, sz) && spec_handle_is(zp, off, sz))

/* footer: a well-formed footer at (p, n) */
static int spec_footer_ok(const uint8_t *p, size_t n) {
  if (n < SPEC_FOOTER_SIZE) return 0;
  if (LE64_AT(p + SPEC_FOOTER_PAD_END) != SPEC_TABLE_MAGIC) return 0;
  return spec_handle_len(p, n) != 0 && spec_handle2_len(p, n) != 0;
}
#define POST_FOOTER_READ_RET(r, p0, n0) ((r) == spec_footer_ok(p0, n0))
#define POST_FOOTER_READ_OK(r, mo, ms, io, is, p1, n1, p0, n0) \
  ((r) != 1 || ((mo) == spec_handle_offset(p0, n0) && (ms) == spec_handle_size(p0, n0) && \
                (io) == spec_handle2_offset(p0, n0) && (is) == spec_handle2_size(p0, n0) && \
                (p1) == (p0) + SPEC_FOOTER_SIZE && (n1) == (n0) - SPEC_FOOTER_SIZE))
/* too short or wrong magic: rejected with the cursor untouched; otherwise the cursor stays inside the input */
#define POST_FOOTER_READ_FAIL(r, p1, n1, p0, n0) \
  ((r) != 0 || (((n0) < SPEC_FOOTER_SIZE || LE64_AT((p0) + SPEC_FOOTER_PAD_END) != SPEC_TABLE_MAGIC) \
                 ? ((p1) == (p0) && (n1) == (n0)) : ((n1) <= (n0) && (p1) == (p0) + ((n0) - (n1)))))

/* footer writer: two canonical handles, bytes [L, 40) zero (L = total handle
 * length >= 4), magic little-endian at 40 */
static int spec_footer_is(const uint8_t *zp, uint64_t mo, uint64_t ms, uint64_t io, uint64_t is) {
  size_t k1 = V64_SIZE(mo), k2 = V64_SIZE(ms), k3 = V64_SIZE(io), k4 = V64_SIZE(is);
  size_t L = k1 + k2 + k3 + k4;
  SPEC_WINDOW(w, zp, 40);
  if (!(SPEC_WLEN(w, 0) == k1 && SPEC_WVAL(w, 0, k1) == mo && SPEC_WLEN(w, k1) == k2 && SPEC_WVAL(w, k1, k2) == ms)) return 0;
  if (!(SPEC_WLEN(w, k1 + k2) == k3 && SPEC_WVAL(w, k1 + k2, k3) == io && SPEC_WLEN(w, k1 + k2 + k3) == k4 && SPEC_WVAL(w, k1 + k2 + k3, k4) == is)) return 0;
#define FZ_(j) if ((size_t)(j) >= L && w[j] != 0) return 0
  FZ_(4); FZ_(5); FZ_(6); FZ_(7); FZ_(8); FZ_(9); FZ_(10); FZ_(11); FZ_(12); FZ_(13); FZ_(14); FZ_(15); FZ_(16); FZ_(17); FZ_(18); FZ_(19);
  FZ_(20); FZ_(21); FZ_(22); FZ_(23); FZ_(24); FZ_(25); FZ_(26); FZ_(27); FZ_(28); FZ_(29); FZ_(30); FZ_(31); FZ_(32); FZ_(33); FZ_(34); FZ_(35);
  FZ_(36); FZ_(37); FZ_(38); FZ_(39);
#undef FZ_
  return IS_LE64(zp + SPEC_FOOTER_PAD_END, SPEC_TABLE_MAGIC);
}
#define POST_FOOTER_WRITE(e, zp, mo, ms, io, is) ((e) == (zp) + SPEC_FOOTER_SIZE && spec_footer_is(zp, mo, ms, io, is))

#ifndef VERIF_NATIVE
#include "table/format.h"

/* ----------------------------------------------------------- BlockHandle */

size_t c_handle_size(const ldb_handle_t *x)
__CPROVER_requires(__CPROVER_r_ok(x, sizeof(*x)))
__CPROVER_assigns()
__CPROVER_ensures(__CPROVER_return_value == SPEC_HLEN(x->offset, x->size))
;

uint8_t *c_handle_write(uint8_t *zp, const ldb_handle_t *x)
__CPROVER_requires(__CPROVER_r_ok(x, sizeof(*x)))
__CPROVER_requires(__CPROVER_w_ok(zp, SPEC_HLEN(x->offset, x->size)))
__CPROVER_assigns(__CPROVER_object_from(zp))
/* keeps the points-to set of the returned cursor across a replaced call */
__CPROVER_ensures(__CPROVER_pointer_in_range_dfcc(zp, __CPROVER_return_value, zp + SPEC_HLEN(x->offset, x->size)))
__CPROVER_ensures(POST_HANDLE_WRITE(__CPROVER_return_value, zp, x->offset, x->size))
;

int c_handle_read(ldb_handle_t *z, const uint8_t **xp, size_t *xn)
__CPROVER_requires(__CPROVER_w_ok(z, sizeof(*z)) && __CPROVER_rw_ok(xp, sizeof(*xp)) && __CPROVER_rw_ok(xn, sizeof(*xn)))
__CPROVER_requires(__CPROVER_r_ok(*xp, *xn))
__CPROVER_assigns(z->offset, z->size, *xp, *xn)
/* keeps the points-to set of the cursor across a replaced call (dfcc havocs *xp) */
__CPROVER_ensures(__CPROVER_pointer_in_range_dfcc(__CPROVER_old(*xp), *xp, __CPROVER_old(*xp) + __CPROVER_old(*xn)))
__CPROVER_ensures(POST_HANDLE_READ_RET(__CPROVER_return_value, __CPROVER_old(*xp), __CPROVER_old(*xn)))
__CPROVER_ensures(POST_HANDLE_READ_OK(__CPROVER_return_value, z->offset, z->size, *xp, *xn, __CPROVER_old(*xp), __CPROVER_old(*xn)))
__CPROVER_ensures(POST_HANDLE_READ_FAIL(__CPROVER_return_value, *xp, *xn, __CPROVER_old(*xp), __CPROVER_old(*xn)))
;

int c_handle_import(ldb_handle_t *z, const ldb_slice_t *x)
__CPROVER_requires(__CPROVER_w_ok(z, sizeof(*z)) && __CPROVER_r_ok(x, sizeof(*x)))
__CPROVER_requires(__CPROVER_r_ok(x->data, x->size))
__CPROVER_assigns(z->offset, z->size)
__CPROVER_ensures(POST_HANDLE_READ_RET(__CPROVER_return_value, x->data, x->size))
__CPROVER_ensures(__CPROVER_return_value != 1 || (z->offset == spec_handle_offset(x->data, x->size) && z->size == spec_handle_size(x->data, x->size)))
;

/* ---------------------------------------------------------------- Footer */

uint8_t *c_footer_write(uint8_t *zp, const ldb_footer_t *x)
__CPROVER_requires(__CPROVER_r_ok(x, sizeof(*x)))
__CPROVER_requires(__CPROVER_w_ok(zp, SPEC_FOOTER_SIZE))
__CPROVER_assigns(__CPROVER_object_upto(zp, SPEC_FOOTER_SIZE))
__CPROVER_ensures(POST_FOOTER_WRITE(__CPROVER_return_value, zp, x->metaindex_handle.offset, x->metaindex_handle.size,
                                    x->index_handle.offset, x->index_handle.size))
;

int c_footer_read(ldb_footer_t *z, const uint8_t **xp, size_t *xn)
__CPROVER_requires(__CPROVER_w_ok(z, sizeof(*z)) && __CPROVER_rw_ok(xp, sizeof(*xp)) && __CPROVER_rw_ok(xn, sizeof(*xn)))
__CPROVER_requires(__CPROVER_r_ok(*xp, *xn))
__CPROVER_assigns(z->metaindex_handle.offset, z->metaindex_handle.size, z->index_handle.offset, z->index_handle.size, *xp, *xn)
/* keeps the points-to set of the cursor across a replaced call (dfcc havocs *xp) */
__CPROVER_ensures(__CPROVER_pointer_in_range_dfcc(__CPROVER_old(*xp), *xp, __CPROVER_old(*xp) + __CPROVER_old(*xn)))
__CPROVER_ensures(POST_FOOTER_READ_RET(__CPROVER_return_value, __CPROVER_old(*xp), __CPROVER_old(*xn)))
__CPROVER_ensures(POST_FOOTER_READ_OK(__CPROVER_return_value, z->metaindex_handle.offset, z->metaindex_handle.size,
                                      z->index_handle.offset, z->index_handle.size, *xp, *xn, __CPROVER_old(*xp), __CPROVER_old(*xn)))
__CPROVER_ensures(POST_FOOTER_READ_FAIL(__CPROVER_return_value, *xp, *xn, __CPROVER_old(*xp), __CPROVER_old(*xn)))
;

int c_footer_import(ldb_footer_t *z, const ldb_slice_t *x)
__CPROVER_requires(__CPROVER_w_ok(z, sizeof(*z)) && __CPROVER_r_ok(x, sizeof(*x)))
__CPROVER_requires(__CPROVER_r_ok(x->data, x->size))
__CPROVER_assigns(z->metaindex_handle.offset, z->metaindex_handle.size, z->index_handle.offset, z->index_handle.size)
__CPROVER_ensures(POST_FOOTER_READ_RET(__CPROVER_return_value, x->data, x->size))
__CPROVER_ensures(__CPROVER_return_value != 1 ||
  (z->metaindex_handle.offset == spec_handle_offset(x->data, x->size) && z->metaindex_handle.size == spec_handle_size(x->data, x->size) &&
   z->index_handle.offset == spec_handle2_offset(x->data, x->size) && z->index_handle.size == spec_handle2_size(x->data, x->size)))
;

#endif /* !VERIF_NATIVE */
#endif
