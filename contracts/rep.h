/* contracts/rep.h - ghost state shared by the repair units (src/repair.c) and the contract of
 * archive_file.  Include AFTER "repair.c" (ldb_repair_t is private to that file).
 *
 * File names are not modelled as strings: every formatter stub (ldb_table_filename, ldb_desc_filename,
 * ...) records, for the buffer it fills, WHICH name was formatted (kind + number) in g_nm_*; a consumer
 * (archive_file, rename, remove) is then judged by the buffer it received and the name it holds.
 */
#ifndef VERIF_CONTRACTS_REP_H
#define VERIF_CONTRACTS_REP_H

ldb_repair_t *g_rep;
/* name most recently formatted: buffer, kind (ldb_filetype_t, 100 = legacy .sst), number */
const char *g_nm_buf; int g_nm_kind; uint64_t g_nm_num;
#define NM_SST 100
/* a second name the caller received from ITS caller (e.g. repair_table's src), formatted earlier */
const char *g_pin_buf; int g_pin_kind; uint64_t g_pin_num;
#define NM_KIND_OF(p) ((p) == g_pin_buf ? g_pin_kind : g_nm_kind)
#define NM_NUM_OF(p) ((p) == g_pin_buf ? g_pin_num : g_nm_num)

/* archive_file: the file is MOVED to <dir>/lost/<base>, never unlinked */
unsigned g_arch_calls;             /* calls so far                                                   */
const char *g_arch_name;           /* argument of the last call                                      */
int g_arch_kind; uint64_t g_arch_num;   /* what that name was                                        */
int g_arch_track_kind; uint64_t g_arch_track_num;   /* a name the unit wants to follow ...           */
unsigned g_arch_track_hits;        /* ... and how often it was archived                               */
unsigned g_arch_removes;           /* unlink calls made by archive_file (must stay 0)                */

#define REP_ARCH_GHOST g_arch_calls, g_arch_name, g_arch_kind, g_arch_num, g_arch_track_hits
#ifndef REP_ARCH_EXTRA
#define REP_ARCH_EXTRA   /* ghost of the enforcing unit's own stubs */
#endif

void c_archive_file(ldb_repair_t *rep, const char *fname)
__CPROVER_requires(rep == g_rep && (fname == g_nm_buf || fname == g_pin_buf))
__CPROVER_assigns(REP_ARCH_GHOST REP_ARCH_EXTRA)
__CPROVER_ensures(g_arch_calls == __CPROVER_old(g_arch_calls) + 1 && g_arch_name == fname && g_arch_kind == NM_KIND_OF(fname) && g_arch_num == NM_NUM_OF(fname))
__CPROVER_ensures(g_arch_track_hits == __CPROVER_old(g_arch_track_hits) + ((NM_KIND_OF(fname) == g_arch_track_kind && NM_NUM_OF(fname) == g_arch_track_num) ? 1u : 0u))
;
/* repair_table: call-protocol carrier used by rep.scan.  Its PRECONDITION is the caller's obligation: the table
 * handed over for salvage is named by the file that was actually found (NNNNNN.ldb or legacy NNNNNN.sst) and the
 * tabinfo carries that table's number. */
unsigned g_rt_calls; ldb_tabinfo_t *g_rt_t;
int g_found_kind;                  /* which of the two table names exists (set by the ldb_file_size model)  */
#ifndef REP_RT_EXTRA
#define REP_RT_EXTRA
#endif
void c_repair_table(ldb_repair_t *rep, const char *src, ldb_tabinfo_t *t)
__CPROVER_requires(rep == g_rep && __CPROVER_rw_ok(t, sizeof(*t)))
/* src is remembered as the 'pinned' name: repair_table formats other names before it archives src */
__CPROVER_requires(src == g_pin_buf && g_pin_kind == g_nm_kind && g_pin_num == g_nm_num)
__CPROVER_requires(src == g_nm_buf && g_nm_kind == g_found_kind && (g_nm_kind == LDB_FILE_TABLE || g_nm_kind == NM_SST) && g_nm_num == t->meta.number)
__CPROVER_assigns(g_rt_calls, g_rt_t, rep->next_file_number, t->meta.file_size, g_nm_buf, g_nm_kind, g_nm_num, REP_ARCH_GHOST REP_RT_EXTRA)
/* t is consumed exactly once (registered in rep->tables or destroyed); the allocator only moves forward */
__CPROVER_ensures(g_rt_calls == __CPROVER_old(g_rt_calls) + 1 && g_rt_t == t && rep->next_file_number >= __CPROVER_old(rep->next_file_number))
;
#endif
