/* contracts/ver2_model.h - shared bounded model of a version for the group "ver2"
 * (copied from units/ver.c, MAXF reduced to 4).
 *
 * The real version_set.c is included unmodified (all statics visible); the
 * byte-wise user comparator (util/comparator.c) and the internal-key comparator
 * (dbformat.c) are the real ones.  User keys are one byte wide; an internal key
 * is the 9 bytes  uk || LE64(seq<<8|type).  The harness builds every key from a
 * (uk, tag) pair of ghost scalars and stores the bytes itself (mk_ikey); the
 * specifications are written on the ghost scalars, independently of the
 * comparators:   a <_ik b  iff  uk(a) < uk(b), or uk(a) = uk(b) and tag(a) > tag(b).
 * Every file and every key is a static object of its own (constant offsets only).
 */
#ifndef VER2_MODEL_H
#define VER2_MODEL_H
#include "verif.h"
#include "version_set.c"
#include "util/comparator.c"
#include "dbformat.c"

/* Allocator model (util/internal.c is not linked): ldb_realloc hands out
 * 64-byte chunks and grows in place, so that vector / buffer growth never
 * needs a symbolic-length memcpy.  A request above 64 bytes fails. */
#define CHUNK 64
void *ldb_malloc(size_t size) { void *p = malloc(size); __CPROVER_assume(p != NULL); return p; }
void *ldb_realloc(void *ptr, size_t size) {
  __CPROVER_assert(size <= CHUNK, "allocator model: request fits the 64-byte chunk");
#ifdef VER2_CHUNK_PTRS
  /* every reallocation in the unit is a vector of pointers: a typed chunk is much cheaper for CBMC than a byte-addressed one */
  if (ptr == NULL) { void **p = malloc(sizeof(void *) * (CHUNK / sizeof(void *))); __CPROVER_assume(p != NULL); return p; }
#else
  if (ptr == NULL) { void *p = malloc(CHUNK); __CPROVER_assume(p != NULL); return p; }
#endif
  return ptr;
}
void ldb_free(void *ptr) { if (ptr != NULL) free(ptr); }

#define MAXF 4
static ldb_versions_t g_vset;
static ldb_filemeta_t fm_0_0, fm_0_1, fm_0_2, fm_0_3, fm_1_0, fm_1_1, fm_1_2, fm_1_3, fm_2_0, fm_2_1, fm_2_2, fm_2_3, fm_3_0, fm_3_1, fm_3_2, fm_3_3, fm_4_0, fm_4_1, fm_4_2, fm_4_3, fm_5_0, fm_5_1, fm_5_2, fm_5_3, fm_6_0, fm_6_1, fm_6_2, fm_6_3;
static uint8_t ks_0_0[9], kl_0_0[9], ks_0_1[9], kl_0_1[9], ks_0_2[9], kl_0_2[9], ks_0_3[9], kl_0_3[9], ks_1_0[9], kl_1_0[9], ks_1_1[9], kl_1_1[9], ks_1_2[9], kl_1_2[9], ks_1_3[9], kl_1_3[9], ks_2_0[9], kl_2_0[9], ks_2_1[9], kl_2_1[9], ks_2_2[9], kl_2_2[9], ks_2_3[9], kl_2_3[9], ks_3_0[9], kl_3_0[9], ks_3_1[9], kl_3_1[9], ks_3_2[9], kl_3_2[9], ks_3_3[9], kl_3_3[9], ks_4_0[9], kl_4_0[9], ks_4_1[9], kl_4_1[9], ks_4_2[9], kl_4_2[9], ks_4_3[9], kl_4_3[9], ks_5_0[9], kl_5_0[9], ks_5_1[9], kl_5_1[9], ks_5_2[9], kl_5_2[9], ks_5_3[9], kl_5_3[9], ks_6_0[9], kl_6_0[9], ks_6_1[9], kl_6_1[9], ks_6_2[9], kl_6_2[9], ks_6_3[9], kl_6_3[9];
static void *g_items0[MAXF], *g_items1[MAXF], *g_items2[MAXF], *g_items3[MAXF], *g_items4[MAXF], *g_items5[MAXF], *g_items6[MAXF];
static ldb_filemeta_t * const g_fmp[LDB_NUM_LEVELS][MAXF] = {
  {&fm_0_0, &fm_0_1, &fm_0_2, &fm_0_3},
  {&fm_1_0, &fm_1_1, &fm_1_2, &fm_1_3},
  {&fm_2_0, &fm_2_1, &fm_2_2, &fm_2_3},
  {&fm_3_0, &fm_3_1, &fm_3_2, &fm_3_3},
  {&fm_4_0, &fm_4_1, &fm_4_2, &fm_4_3},
  {&fm_5_0, &fm_5_1, &fm_5_2, &fm_5_3},
  {&fm_6_0, &fm_6_1, &fm_6_2, &fm_6_3}};
static uint8_t * const g_ksp[LDB_NUM_LEVELS][MAXF] = {
  {ks_0_0, ks_0_1, ks_0_2, ks_0_3},
  {ks_1_0, ks_1_1, ks_1_2, ks_1_3},
  {ks_2_0, ks_2_1, ks_2_2, ks_2_3},
  {ks_3_0, ks_3_1, ks_3_2, ks_3_3},
  {ks_4_0, ks_4_1, ks_4_2, ks_4_3},
  {ks_5_0, ks_5_1, ks_5_2, ks_5_3},
  {ks_6_0, ks_6_1, ks_6_2, ks_6_3}};
static uint8_t * const g_klp[LDB_NUM_LEVELS][MAXF] = {
  {kl_0_0, kl_0_1, kl_0_2, kl_0_3},
  {kl_1_0, kl_1_1, kl_1_2, kl_1_3},
  {kl_2_0, kl_2_1, kl_2_2, kl_2_3},
  {kl_3_0, kl_3_1, kl_3_2, kl_3_3},
  {kl_4_0, kl_4_1, kl_4_2, kl_4_3},
  {kl_5_0, kl_5_1, kl_5_2, kl_5_3},
  {kl_6_0, kl_6_1, kl_6_2, kl_6_3}};
static void **const g_itemsp[LDB_NUM_LEVELS] = {g_items0, g_items1, g_items2, g_items3, g_items4, g_items5, g_items6};
static uint8_t g_suk[LDB_NUM_LEVELS][MAXF], g_luk[LDB_NUM_LEVELS][MAXF];     /* ghost: user key of smallest / largest */
static uint64_t g_stag[LDB_NUM_LEVELS][MAXF], g_ltag[LDB_NUM_LEVELS][MAXF];  /* ghost: seq<<8|type of smallest / largest */
static uint64_t g_num[LDB_NUM_LEVELS][MAXF], g_fsz[LDB_NUM_LEVELS][MAXF];    /* ghost: file number, size */
static size_t g_n[LDB_NUM_LEVELS];                                            /* ghost: files per level */
static ldb_version_t g_ver;
static ldb_dbopt_t g_opt;

#define LT_(uk1, t1, uk2, t2) ((uk1) < (uk2) || ((uk1) == (uk2) && (t1) > (t2)))
#define LE_(uk1, t1, uk2, t2) (!LT_(uk2, t2, uk1, t1))

static void mk_ikey(ldb_buffer_t *b, uint8_t *st, uint8_t uk, uint64_t tag) {
  st[0] = uk;
  st[1] = (uint8_t)tag; st[2] = (uint8_t)(tag >> 8); st[3] = (uint8_t)(tag >> 16); st[4] = (uint8_t)(tag >> 24);
  st[5] = (uint8_t)(tag >> 32); st[6] = (uint8_t)(tag >> 40); st[7] = (uint8_t)(tag >> 48); st[8] = (uint8_t)(tag >> 56);
  b->data = st; b->size = 9; b->alloc = 0;
}
static void mk_file(int level, size_t i) {
  ldb_filemeta_t *f = g_fmp[level][i];
  g_suk[level][i] = nondet_u8(); g_luk[level][i] = nondet_u8();
  g_stag[level][i] = nondet_u64(); g_ltag[level][i] = nondet_u64();
  g_num[level][i] = nondet_u64(); g_fsz[level][i] = nondet_u64();
  /* metadata keys are valid internal keys: type byte is 0 (deletion) or 1 (value) */
  __CPROVER_assume((g_stag[level][i] & 0xff) <= 1 && (g_ltag[level][i] & 0xff) <= 1);
  f->refs = 1; f->allowed_seeks = nondet_int(); f->number = g_num[level][i]; f->file_size = g_fsz[level][i];
  mk_ikey(&f->smallest, g_ksp[level][i], g_suk[level][i], g_stag[level][i]);
  mk_ikey(&f->largest, g_klp[level][i], g_luk[level][i], g_ltag[level][i]);
  g_itemsp[level][i] = f;
}
/* n files with arbitrary keys, numbers and sizes in `level` (n <= MAXF) */
static void mk_level(int level, size_t n) {
  if (n > 0) mk_file(level, 0);
  if (n > 1) mk_file(level, 1);
  if (n > 2) mk_file(level, 2);
  if (n > 3) mk_file(level, 3);
  g_n[level] = n;
  g_ver.files[level].items = g_itemsp[level];
  g_ver.files[level].length = n;
  g_ver.files[level].alloc = MAXF;
}
static void mk_empty(int l) { g_n[l] = 0; g_ver.files[l].items = g_itemsp[l]; g_ver.files[l].length = 0; g_ver.files[l].alloc = MAXF; }
static void mk_version(void) {
  g_opt.max_file_size = nondet_size();
  g_vset.options = &g_opt;
  g_vset.table_cache = NULL;
  ldb_ikc_init(&g_vset.icmp, &bytewise_comparator);
  g_ver.vset = &g_vset; g_ver.next = &g_ver; g_ver.prev = &g_ver; g_ver.refs = 1;
  g_ver.file_to_compact = NULL; g_ver.file_to_compact_level = -1;
  mk_empty(0); mk_empty(1); mk_empty(2); mk_empty(3); mk_empty(4); mk_empty(5); mk_empty(6);
}
/* levels > 0: files sorted and disjoint as internal-key ranges */
#define DISJ_AT(l, i) (((i) >= g_n[l] || LE_(g_suk[l][i], g_stag[l][i], g_luk[l][i], g_ltag[l][i])) && \
                       ((i) + 1 >= g_n[l] || LT_(g_luk[l][i], g_ltag[l][i], g_suk[l][(i) + 1], g_stag[l][(i) + 1])))
#define DISJOINT_SORTED(l) (DISJ_AT(l,0) && DISJ_AT(l,1) && DISJ_AT(l,2) && DISJ_AT(l,3))
#endif
