/* contracts/edit.h - reference (specification) decoder of one MANIFEST
 * version-edit record, written from the LevelDB format description and
 * independent of src/version_edit.c:
 *
 *   record   := varint32 tag, body
 *   tag 1    comparator name      : length-prefixed bytes
 *   tag 2    log number           : varint64
 *   tag 9    previous log number  : varint64
 *   tag 3    next file number     : varint64
 *   tag 4    last sequence        : varint64
 *   tag 5    compact pointer      : varint32 level (< 7), length-prefixed internal key (>= 8 bytes)
 *   tag 6    deleted file         : varint32 level (< 7), varint64 file number
 *   tag 7    new file             : varint32 level (< 7), varint64 number, varint64 size,
 *                                   length-prefixed smallest, length-prefixed largest (both >= 8 bytes)
 *   any other tag (including 8)   : malformed
 *
 * All helpers are loop free (the varint positions come from the LEB128
 * macros of contracts/coding.h / contracts/buf.h).
 */
#ifndef VERIF_CONTRACTS_EDIT_H
#define VERIF_CONTRACTS_EDIT_H

#include "contracts/coding.h"
#include "contracts/buf.h"

#define REF_NUM_LEVELS 7

/* bytes of the first terminated LEB128 group sequence within min(n, 10) bytes, 0 = none */
#define V64_K(p, n) (LPS_T_(p, n, 0) ? 1 : !((n) > 0) ? 0 : LPS_T_(p, n, 1) ? 2 : !((n) > 1) ? 0 : LPS_T_(p, n, 2) ? 3 : \
                     !((n) > 2) ? 0 : LPS_T_(p, n, 3) ? 4 : !((n) > 3) ? 0 : LPS_T_(p, n, 4) ? 5 : !((n) > 4) ? 0 : \
                     LPS_T_(p, n, 5) ? 6 : !((n) > 5) ? 0 : LPS_T_(p, n, 6) ? 7 : !((n) > 6) ? 0 : LPS_T_(p, n, 7) ? 8 : \
                     !((n) > 7) ? 0 : LPS_T_(p, n, 8) ? 9 : !((n) > 8) ? 0 : LPS_T_(p, n, 9) ? 10 : 0)

typedef struct ref_rec_s {
  uint32_t tag;
  uint32_t level;
  uint64_t num;            /* scalar value (tags 2, 9, 3, 4) or file number (6, 7) */
  uint64_t fsize;          /* file size (7) */
  const uint8_t *k1; size_t k1n;   /* comparator name (1), compact key (5), smallest (7) */
  const uint8_t *k2; size_t k2n;   /* largest (7) */
} ref_rec_t;

static size_t ref_v32(uint32_t *v, const uint8_t *p, size_t n) {
  size_t k = LPS_K(p, n);
  *v = V32_VAL(p, k);
  return k;
}

static size_t ref_v64(uint64_t *v, const uint8_t *p, size_t n) {
  size_t k = V64_K(p, n);
  *v = V64_VAL(p, k);
  return k;
}

static size_t ref_lps(const uint8_t **d, size_t *dn, const uint8_t *p, size_t n) {
  size_t k = LPS_K(p, n);
  size_t len = (size_t)V32_VAL(p, k);
  if (k == 0 || len > n - k)
    return 0;
  *d = p + k;
  *dn = len;
  return k + len;
}

/* decodes the record at p (n bytes available): returns its length, 0 if malformed / truncated */
static size_t ref_record(ref_rec_t *R, const uint8_t *p, size_t n) {
  size_t o, k;
  R->tag = 0; R->level = 0; R->num = 0; R->fsize = 0; R->k1 = NULL; R->k1n = 0; R->k2 = NULL; R->k2n = 0;
  o = ref_v32(&R->tag, p, n);
  if (o == 0)
    return 0;
  if (R->tag == 1) {
    k = ref_lps(&R->k1, &R->k1n, p + o, n - o); if (k == 0) return 0; o += k;
    return o;
  }
  if (R->tag == 2 || R->tag == 9 || R->tag == 3 || R->tag == 4) {
    k = ref_v64(&R->num, p + o, n - o); if (k == 0) return 0; o += k;
    return o;
  }
  if (R->tag == 5 || R->tag == 6 || R->tag == 7) {
    k = ref_v32(&R->level, p + o, n - o); if (k == 0) return 0; o += k;
    if (R->level >= REF_NUM_LEVELS) return 0;
    if (R->tag == 5) {
      k = ref_lps(&R->k1, &R->k1n, p + o, n - o); if (k == 0) return 0; o += k;
      if (R->k1n < 8) return 0;
      return o;
    }
    k = ref_v64(&R->num, p + o, n - o); if (k == 0) return 0; o += k;
    if (R->tag == 6)
      return o;
    k = ref_v64(&R->fsize, p + o, n - o); if (k == 0) return 0; o += k;
    k = ref_lps(&R->k1, &R->k1n, p + o, n - o); if (k == 0) return 0; o += k;
    k = ref_lps(&R->k2, &R->k2n, p + o, n - o); if (k == 0) return 0; o += k;
    if (R->k1n < 8 || R->k2n < 8) return 0;
    return o;
  }
  return 0;
}

#endif
