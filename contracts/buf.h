/* contracts/buf.h - contract carriers for src/util/slice.c and src/util/buffer.c
 *
 * Wire format (LevelDB "length-prefixed slice"): varint32(len) followed by len
 * raw bytes.  The specification below locates the prefix independently of the
 * code: LPS_K(p, n) is the number of bytes of the first terminated LEB128
 * group sequence within the first min(n, 5) bytes (0 = none), LPS_LEN its
 * value (contracts/coding.h V32_VAL).
 *
 * Buffer representation invariant (owned, growable buffers):
 *   size <= alloc; alloc == 0 => data == NULL; alloc > 0 => data is a heap
 *   object readable and writable for alloc bytes which may be passed to realloc/free.
 *
 * "For all positions" is expressed with arbitrary ghost indices g_bj (into the
 * old content) and g_bk (into the appended / copied bytes), fixed by the harness
 * to nondeterministic values before the call.
 */
#ifndef VERIF_CONTRACTS_BUF_H
#define VERIF_CONTRACTS_BUF_H

#include "contracts/coding.h"

/* ---- length-prefixed slice ---- */
#define LPS_T_(p, n, j) ((n) > (j) && ((p)[j] & 128) == 0)
#define LPS_K(p, n) (LPS_T_(p, n, 0) ? 1 : !((n) > 0) ? 0 : LPS_T_(p, n, 1) ? 2 : !((n) > 1) ? 0 : LPS_T_(p, n, 2) ? 3 : \
                     !((n) > 2) ? 0 : LPS_T_(p, n, 3) ? 4 : !((n) > 3) ? 0 : LPS_T_(p, n, 4) ? 5 : 0)
#define LPS_LEN(p, n) ((size_t)V32_VAL(p, LPS_K(p, n)))
/* a complete length-prefixed slice starts at p (n bytes available) */
#define LPS_OK(p, n) (LPS_K(p, n) > 0 && LPS_LEN(p, n) <= (n) - LPS_K(p, n))

/* reader: r result; (zd, zs, za) the output slice; (p1, n1) cursor after; (p0, n0) cursor before */
#define POST_LPS_RET(r, p0, n0) ((r) == (LPS_OK(p0, n0) ? 1 : 0))
#define POST_LPS_CURSOR(r, p1, n1, p0, n0) ((r) != 1 || \
  ((p1) == (p0) + LPS_K(p0, n0) + LPS_LEN(p0, n0) && (n1) == (n0) - LPS_K(p0, n0) - LPS_LEN(p0, n0)))
#define POST_LPS_SLICE(r, zd, zs, za, p0, n0) ((r) != 1 || \
  ((zd) == (p0) + LPS_K(p0, n0) && (zs) == LPS_LEN(p0, n0) && (za) == 0))
/* failure: the cursor is still a valid suffix of the input (never past the end) */
#define POST_LPS_FAIL(r, p1, n1, p0, n0) ((r) != 0 || ((n1) <= (n0) && (p1) == (p0) + ((n0) - (n1))))

/* writer: k = V32_SIZE(len) prefix bytes LEB128(len), then the len payload bytes */
#define LPS_PREFIX_IS(p, len) (V_WELLFORMED(p, V32_SIZE(len)) && V32_VAL(p, V32_SIZE(len)) == (uint32_t)(len))

/* sizes of real objects on x86-64 (user address space 2^47): the no-wrap
 * facts of the size arithmetic are stated against this bound */
#define VERIF_OBJ_MAX ((size_t)1 << 47)
#define VERIF_U32_MAX ((size_t)0xffffffffu)

#ifdef VERIF_NATIVE
#define PTR_RW_OK(p, n) 1
#define PTR_R_OK(p, n) 1
#define PTR_FREEABLE(p) 1
#else
#define PTR_RW_OK(p, n) __CPROVER_rw_ok(p, n)
#define PTR_R_OK(p, n) __CPROVER_r_ok(p, n)
#define PTR_FREEABLE(p) __CPROVER_is_freeable(p)
#endif

/* ---- buffer representation invariant ---- */
#define BUF_RI_SHAPE(z) ((z)->size <= (z)->alloc && ((z)->alloc != 0 || (z)->data == NULL))
#define BUF_RI(z) (BUF_RI_SHAPE(z) && ((z)->alloc == 0 || PTR_RW_OK((z)->data, (z)->alloc)))
#define BUF_PRE(z) (BUF_RI(z) && (z)->alloc <= VERIF_OBJ_MAX && ((z)->alloc == 0 || PTR_FREEABLE((z)->data)))
#define BUF_POST(z) (BUF_RI(z) && ((z)->alloc == 0 || PTR_FREEABLE((z)->data)))
/* a slice / read-only view: readable for size bytes */
#define SLICE_OK(x) ((x)->size == 0 || PTR_R_OK((x)->data, (x)->size))

size_t g_bj, g_bk;   /* arbitrary ghost indices */
/* The byte-content clauses of the five carriers that write single bytes at a
 * symbolic offset (fixed64, varint32, varint64, export, slice_export) are
 * claimed only when g_bcontent is set, and then the precondition restricts
 * capacity and lengths to BUF_CONTENT_MAX (bounded units *_b).  With
 * g_bcontent == 0 the same carrier is proved for all sizes (size arithmetic,
 * representation invariant, pointer stability). */
int g_bcontent;
#define BUF_CONTENT_MAX 16
#define BUF_CONTENT_PRE(z, n) (!g_bcontent || ((z)->alloc <= BUF_CONTENT_MAX && (n) <= BUF_CONTENT_MAX))
uint8_t g_bold;      /* the byte at g_bj before the call, if g_bj < old size */
#define BUF_KEEP_PRE(z) (!(g_bj < (z)->size) || g_bold == (z)->data[g_bj])
#define BUF_KEEP_POST(z, oldsize) (!(g_bj < (oldsize)) || (z)->data[g_bj] == g_bold)
/* growth is lazy (no reallocation if `hi` more bytes fit: pointers into the
 * buffer stay valid) and bounded (at most twice what may be needed);
 * lo = bytes that must fit afterwards, hi = the most the call may reserve */
#define BUF_GROW_POST2(z, lo, hi, olddata, oldalloc) \
  ((z)->alloc >= (lo) && (z)->alloc >= (oldalloc) && \
   ((hi) > (oldalloc) || ((z)->data == (olddata) && (z)->alloc == (oldalloc))) && \
   ((z)->alloc == (oldalloc) || (z)->alloc <= 2 * (hi)))
#define BUF_GROW_POST(z, need, olddata, oldalloc) BUF_GROW_POST2(z, need, need, olddata, oldalloc)

/* readers that copy the payload into an owned buffer */
#define POST_BUFREAD(r, z, p0, n0, oldsize, oldalloc, olddata) \
  (((r) != 1 || ((z)->size == LPS_LEN(p0, n0) && (z)->alloc == (LPS_LEN(p0, n0) > (oldalloc) ? LPS_LEN(p0, n0) : (oldalloc)) && \
                (!(g_bk < LPS_LEN(p0, n0)) || (z)->data[g_bk] == (p0)[LPS_K(p0, n0) + g_bk]))) && \
   ((r) != 0 || ((z)->size == (oldsize) && (z)->alloc == (oldalloc) && (z)->data == (olddata))))

#ifndef VERIF_NATIVE

#include "util/types.h"

/* ------------------------------------------------------------- slice.c */

int c_slice_read(ldb_slice_t *z, const uint8_t **xp, size_t *xn)
__CPROVER_requires(__CPROVER_rw_ok(z, sizeof(*z)) && __CPROVER_rw_ok(xp, sizeof(*xp)) && __CPROVER_rw_ok(xn, sizeof(*xn)))
__CPROVER_requires(__CPROVER_r_ok(*xp, *xn))
__CPROVER_assigns(*z, *xp, *xn)
/* re-binds the advanced cursor to the input object when the contract replaces a call */
__CPROVER_ensures(__CPROVER_pointer_in_range_dfcc(__CPROVER_old(*xp), *xp, __CPROVER_old(*xp) + __CPROVER_old(*xn)))
__CPROVER_ensures(__CPROVER_return_value == 1 ==> __CPROVER_pointer_in_range_dfcc(__CPROVER_old(*xp), z->data, __CPROVER_old(*xp) + __CPROVER_old(*xn)))
__CPROVER_ensures(POST_LPS_RET(__CPROVER_return_value, __CPROVER_old(*xp), __CPROVER_old(*xn)))
__CPROVER_ensures(POST_LPS_SLICE(__CPROVER_return_value, z->data, z->size, z->alloc, __CPROVER_old(*xp), __CPROVER_old(*xn)))
__CPROVER_ensures(POST_LPS_CURSOR(__CPROVER_return_value, *xp, *xn, __CPROVER_old(*xp), __CPROVER_old(*xn)))
__CPROVER_ensures(POST_LPS_FAIL(__CPROVER_return_value, *xp, *xn, __CPROVER_old(*xp), __CPROVER_old(*xn)))
__CPROVER_ensures(__CPROVER_return_value == 0 ==> (z->data == __CPROVER_old(z->data) && z->size == __CPROVER_old(z->size) && z->alloc == __CPROVER_old(z->alloc)))
;

int c_slice_slurp(ldb_slice_t *z, ldb_slice_t *x)
__CPROVER_requires(__CPROVER_rw_ok(z, sizeof(*z)) && __CPROVER_rw_ok(x, sizeof(*x)) && !__CPROVER_same_object(z, x))
__CPROVER_requires(__CPROVER_r_ok(x->data, x->size))
__CPROVER_assigns(*z, x->data, x->size)
/* re-binds the advanced cursor to the input object when the contract replaces a call */
__CPROVER_ensures(__CPROVER_pointer_in_range_dfcc(__CPROVER_old(x->data), x->data, __CPROVER_old(x->data) + __CPROVER_old(x->size)))
__CPROVER_ensures(__CPROVER_return_value == 1 ==> __CPROVER_pointer_in_range_dfcc(__CPROVER_old(x->data), z->data, __CPROVER_old(x->data) + __CPROVER_old(x->size)))
__CPROVER_ensures(POST_LPS_RET(__CPROVER_return_value, __CPROVER_old(x->data), __CPROVER_old(x->size)))
__CPROVER_ensures(POST_LPS_SLICE(__CPROVER_return_value, z->data, z->size, z->alloc, __CPROVER_old(x->data), __CPROVER_old(x->size)))
__CPROVER_ensures(POST_LPS_CURSOR(__CPROVER_return_value, x->data, x->size, __CPROVER_old(x->data), __CPROVER_old(x->size)))
__CPROVER_ensures(POST_LPS_FAIL(__CPROVER_return_value, x->data, x->size, __CPROVER_old(x->data), __CPROVER_old(x->size)))
__CPROVER_ensures(__CPROVER_return_value == 0 ==> (z->data == __CPROVER_old(z->data) && z->size == __CPROVER_old(z->size) && z->alloc == __CPROVER_old(z->alloc)))
__CPROVER_ensures(x->alloc == __CPROVER_old(x->alloc))
;

int c_slice_import(ldb_slice_t *z, const ldb_slice_t *x)
__CPROVER_requires(__CPROVER_rw_ok(z, sizeof(*z)) && __CPROVER_r_ok(x, sizeof(*x)) && !__CPROVER_same_object(z, x))
__CPROVER_requires(__CPROVER_r_ok(x->data, x->size))
__CPROVER_assigns(*z)
__CPROVER_ensures(__CPROVER_return_value == 1 ==> __CPROVER_pointer_in_range_dfcc(x->data, z->data, x->data + x->size))
__CPROVER_ensures(POST_LPS_RET(__CPROVER_return_value, x->data, x->size))
__CPROVER_ensures(POST_LPS_SLICE(__CPROVER_return_value, z->data, z->size, z->alloc, x->data, x->size))
__CPROVER_ensures(__CPROVER_return_value == 0 ==> (z->data == __CPROVER_old(z->data) && z->size == __CPROVER_old(z->size) && z->alloc == __CPROVER_old(z->alloc)))
;

size_t c_slice_size(const ldb_slice_t *x)
__CPROVER_requires(__CPROVER_r_ok(x, sizeof(*x)) && x->size <= VERIF_U32_MAX)
__CPROVER_assigns()
__CPROVER_ensures(__CPROVER_return_value == V32_SIZE(x->size) + x->size)
;

uint8_t *c_slice_write(uint8_t *zp, const ldb_slice_t *x)
__CPROVER_requires(__CPROVER_r_ok(x, sizeof(*x)) && x->size <= VERIF_U32_MAX && SLICE_OK(x))
__CPROVER_requires(__CPROVER_w_ok(zp, V32_SIZE(x->size) + x->size))
__CPROVER_assigns(__CPROVER_object_from(zp))
__CPROVER_ensures(__CPROVER_pointer_in_range_dfcc(zp, __CPROVER_return_value, zp + V32_SIZE(x->size) + x->size))
__CPROVER_ensures(__CPROVER_return_value == zp + V32_SIZE(x->size) + x->size)
__CPROVER_ensures(LPS_PREFIX_IS(zp, x->size))
__CPROVER_ensures(g_bk < x->size ==> zp[V32_SIZE(x->size) + g_bk] == x->data[g_bk])
;

void c_slice_export(ldb_buffer_t *z, const ldb_slice_t *x)
__CPROVER_requires(BUF_CONTENT_PRE(z, x->size))
__CPROVER_requires(__CPROVER_rw_ok(z, sizeof(*z)) && BUF_PRE(z) && BUF_KEEP_PRE(z))
__CPROVER_requires(__CPROVER_r_ok(x, sizeof(*x)) && x->size <= VERIF_U32_MAX && SLICE_OK(x))
__CPROVER_assigns(z->data, z->size, z->alloc, __CPROVER_object_upto(z->data, z->alloc))
__CPROVER_frees(z->data)
__CPROVER_ensures(BUF_POST(z))
__CPROVER_ensures(z->size == __CPROVER_old(z->size) + V32_SIZE(x->size) + x->size)
__CPROVER_ensures(BUF_GROW_POST2(z, z->size, __CPROVER_old(z->size) + 5 + x->size, __CPROVER_old(z->data), __CPROVER_old(z->alloc)))
__CPROVER_ensures(g_bcontent ==> (BUF_KEEP_POST(z, __CPROVER_old(z->size))))
__CPROVER_ensures(g_bcontent ==> (LPS_PREFIX_IS(z->data + __CPROVER_old(z->size), x->size)))
__CPROVER_ensures(g_bcontent ==> (g_bk < x->size ==> z->data[__CPROVER_old(z->size) + V32_SIZE(x->size) + g_bk] == x->data[g_bk]))
;

/* ------------------------------------------------------------ buffer.c */

void c_buffer_init(ldb_buffer_t *z)
__CPROVER_requires(__CPROVER_w_ok(z, sizeof(*z)))
__CPROVER_assigns(*z)
__CPROVER_ensures(z->data == NULL && z->size == 0 && z->alloc == 0)
;

void c_buffer_clear(ldb_buffer_t *z)
__CPROVER_requires(__CPROVER_rw_ok(z, sizeof(*z)) && BUF_PRE(z))
__CPROVER_assigns(*z)
__CPROVER_frees(z->data)
__CPROVER_ensures(z->data == NULL && z->size == 0 && z->alloc == 0)
__CPROVER_ensures(__CPROVER_old(z->alloc) > 0 ==> __CPROVER_was_freed(__CPROVER_old(z->data)))
;

void c_buffer_reset(ldb_buffer_t *z)
__CPROVER_requires(__CPROVER_rw_ok(z, sizeof(*z)))
__CPROVER_assigns(z->size)
__CPROVER_ensures(z->size == 0)
;

void c_buffer_reinit(ldb_buffer_t *z, size_t zn)
__CPROVER_requires(__CPROVER_rw_ok(z, sizeof(*z)) && BUF_PRE(z) && zn <= VERIF_OBJ_MAX)
__CPROVER_assigns(*z)
__CPROVER_frees(z->data)
__CPROVER_ensures(BUF_POST(z) && z->size == 0 && z->alloc == zn)
__CPROVER_ensures(__CPROVER_old(z->alloc) > 0 ==> __CPROVER_was_freed(__CPROVER_old(z->data)))
;

uint8_t *c_buffer_grow(ldb_buffer_t *z, size_t zn)
__CPROVER_requires(__CPROVER_rw_ok(z, sizeof(*z)) && BUF_PRE(z) && BUF_KEEP_PRE(z) && zn <= VERIF_OBJ_MAX)
__CPROVER_assigns(z->data, z->alloc)
__CPROVER_frees(z->data)
__CPROVER_ensures(BUF_POST(z) && z->size == __CPROVER_old(z->size))
__CPROVER_ensures(z->alloc == (zn > __CPROVER_old(z->alloc) ? zn : __CPROVER_old(z->alloc)))
__CPROVER_ensures(zn <= __CPROVER_old(z->alloc) ==> z->data == __CPROVER_old(z->data))
__CPROVER_ensures(__CPROVER_return_value == z->data)
__CPROVER_ensures(BUF_KEEP_POST(z, z->size))
;

uint8_t *c_buffer_expand(ldb_buffer_t *z, size_t xn)
__CPROVER_requires(__CPROVER_rw_ok(z, sizeof(*z)) && BUF_PRE(z) && BUF_KEEP_PRE(z) && xn <= VERIF_OBJ_MAX)
__CPROVER_assigns(z->data, z->alloc)
__CPROVER_frees(z->data)
__CPROVER_ensures(BUF_POST(z) && z->size == __CPROVER_old(z->size))
__CPROVER_ensures(BUF_GROW_POST(z, z->size + xn, __CPROVER_old(z->data), __CPROVER_old(z->alloc)))
__CPROVER_ensures(__CPROVER_return_value == (z->alloc == 0 ? (uint8_t *)NULL : z->data + z->size))
__CPROVER_ensures(BUF_KEEP_POST(z, z->size))
;

uint8_t *c_buffer_resize(ldb_buffer_t *z, size_t zn)
__CPROVER_requires(__CPROVER_rw_ok(z, sizeof(*z)) && BUF_PRE(z) && BUF_KEEP_PRE(z) && zn <= VERIF_OBJ_MAX)
__CPROVER_assigns(z->data, z->size, z->alloc)
__CPROVER_frees(z->data)
__CPROVER_ensures(BUF_POST(z) && z->size == zn)
__CPROVER_ensures(z->alloc == (zn > __CPROVER_old(z->alloc) ? zn : __CPROVER_old(z->alloc)))
__CPROVER_ensures(zn <= __CPROVER_old(z->alloc) ==> z->data == __CPROVER_old(z->data))
__CPROVER_ensures(__CPROVER_return_value == z->data)
__CPROVER_ensures(BUF_KEEP_POST(z, (zn < __CPROVER_old(z->size) ? zn : __CPROVER_old(z->size))))
;

void c_buffer_set(ldb_buffer_t *z, const uint8_t *xp, size_t xn)
__CPROVER_requires(__CPROVER_rw_ok(z, sizeof(*z)) && BUF_PRE(z) && xn <= VERIF_OBJ_MAX)
__CPROVER_requires(xn == 0 || __CPROVER_r_ok(xp, xn))
__CPROVER_assigns(z->data, z->size, z->alloc, __CPROVER_object_upto(z->data, z->alloc))
__CPROVER_frees(z->data)
__CPROVER_ensures(BUF_POST(z) && z->size == xn)
__CPROVER_ensures(z->alloc == (xn > __CPROVER_old(z->alloc) ? xn : __CPROVER_old(z->alloc)))
__CPROVER_ensures(g_bk < xn ==> z->data[g_bk] == xp[g_bk])
;

void c_buffer_copy(ldb_buffer_t *z, const ldb_buffer_t *x)
__CPROVER_requires(__CPROVER_rw_ok(z, sizeof(*z)) && BUF_PRE(z) && __CPROVER_r_ok(x, sizeof(*x)) && x->size <= VERIF_OBJ_MAX && SLICE_OK(x))
__CPROVER_requires(!__CPROVER_same_object(z, x))
__CPROVER_assigns(z->data, z->size, z->alloc, __CPROVER_object_upto(z->data, z->alloc))
__CPROVER_frees(z->data)
__CPROVER_ensures(BUF_POST(z) && z->size == x->size)
__CPROVER_ensures(z->alloc == (x->size > __CPROVER_old(z->alloc) ? x->size : __CPROVER_old(z->alloc)))
__CPROVER_ensures(g_bk < x->size ==> z->data[g_bk] == x->data[g_bk])
;

void c_buffer_swap(ldb_buffer_t *x, ldb_buffer_t *y)
__CPROVER_requires(__CPROVER_rw_ok(x, sizeof(*x)) && __CPROVER_rw_ok(y, sizeof(*y)))
__CPROVER_assigns(*x, *y)
__CPROVER_ensures(x->data == __CPROVER_old(y->data) && x->size == __CPROVER_old(y->size) && x->alloc == __CPROVER_old(y->alloc))
__CPROVER_ensures(y->data == __CPROVER_old(x->data) && y->size == __CPROVER_old(x->size) && y->alloc == __CPROVER_old(x->alloc))
;

void c_buffer_roset(ldb_buffer_t *z, const uint8_t *xp, size_t xn)
__CPROVER_requires(__CPROVER_w_ok(z, sizeof(*z)))
__CPROVER_assigns(*z)
__CPROVER_ensures(z->data == xp && z->size == xn && z->alloc == 0)
;

void c_buffer_rocopy(ldb_buffer_t *z, const ldb_buffer_t *x)
__CPROVER_requires(__CPROVER_w_ok(z, sizeof(*z)) && __CPROVER_r_ok(x, sizeof(*x)) && !__CPROVER_same_object(z, x))
__CPROVER_assigns(*z)
__CPROVER_ensures(z->data == x->data && z->size == x->size && z->alloc == 0)
;

void c_buffer_rwset(ldb_buffer_t *z, uint8_t *zp, size_t zn)
__CPROVER_requires(__CPROVER_w_ok(z, sizeof(*z)))
__CPROVER_assigns(*z)
__CPROVER_ensures(z->data == zp && z->size == 0 && z->alloc == zn)
;

void c_buffer_push(ldb_buffer_t *z, int x)
__CPROVER_requires(__CPROVER_rw_ok(z, sizeof(*z)) && BUF_PRE(z) && BUF_KEEP_PRE(z))
__CPROVER_assigns(z->data, z->size, z->alloc, __CPROVER_object_upto(z->data, z->alloc))
__CPROVER_frees(z->data)
__CPROVER_ensures(BUF_POST(z) && z->size == __CPROVER_old(z->size) + 1)
__CPROVER_ensures(BUF_GROW_POST(z, __CPROVER_old(z->size) + 1, __CPROVER_old(z->data), __CPROVER_old(z->alloc)))
__CPROVER_ensures(z->data[z->size - 1] == (uint8_t)(x & 0xff))
__CPROVER_ensures(BUF_KEEP_POST(z, __CPROVER_old(z->size)))
;

void c_buffer_append(ldb_buffer_t *z, const uint8_t *xp, size_t xn)
__CPROVER_requires(__CPROVER_rw_ok(z, sizeof(*z)) && BUF_PRE(z) && BUF_KEEP_PRE(z) && xn <= VERIF_OBJ_MAX)
__CPROVER_requires(xn == 0 || __CPROVER_r_ok(xp, xn))
__CPROVER_assigns(z->data, z->size, z->alloc, __CPROVER_object_upto(z->data, z->alloc))
__CPROVER_frees(z->data)
__CPROVER_ensures(BUF_POST(z) && z->size == __CPROVER_old(z->size) + xn)
__CPROVER_ensures(BUF_GROW_POST(z, z->size, __CPROVER_old(z->data), __CPROVER_old(z->alloc)))
__CPROVER_ensures(BUF_KEEP_POST(z, __CPROVER_old(z->size)))
__CPROVER_ensures(g_bk < xn ==> z->data[__CPROVER_old(z->size) + g_bk] == xp[g_bk])
;

void c_buffer_concat(ldb_buffer_t *z, const ldb_slice_t *x)
__CPROVER_requires(__CPROVER_rw_ok(z, sizeof(*z)) && BUF_PRE(z) && BUF_KEEP_PRE(z))
__CPROVER_requires(__CPROVER_r_ok(x, sizeof(*x)) && x->size <= VERIF_OBJ_MAX && SLICE_OK(x) && !__CPROVER_same_object(z, x))
__CPROVER_assigns(z->data, z->size, z->alloc, __CPROVER_object_upto(z->data, z->alloc))
__CPROVER_frees(z->data)
__CPROVER_ensures(BUF_POST(z) && z->size == __CPROVER_old(z->size) + x->size)
__CPROVER_ensures(BUF_GROW_POST(z, z->size, __CPROVER_old(z->data), __CPROVER_old(z->alloc)))
__CPROVER_ensures(BUF_KEEP_POST(z, __CPROVER_old(z->size)))
__CPROVER_ensures(g_bk < x->size ==> z->data[__CPROVER_old(z->size) + g_bk] == x->data[g_bk])
;

uint8_t *c_buffer_pad(ldb_buffer_t *z, size_t xn)
__CPROVER_requires(__CPROVER_rw_ok(z, sizeof(*z)) && BUF_PRE(z) && BUF_KEEP_PRE(z) && xn <= VERIF_OBJ_MAX)
__CPROVER_assigns(z->data, z->size, z->alloc, __CPROVER_object_upto(z->data, z->alloc))
__CPROVER_frees(z->data)
__CPROVER_ensures(BUF_POST(z) && z->size == __CPROVER_old(z->size) + xn)
__CPROVER_ensures(BUF_GROW_POST(z, z->size, __CPROVER_old(z->data), __CPROVER_old(z->alloc)))
__CPROVER_ensures(BUF_KEEP_POST(z, __CPROVER_old(z->size)))
__CPROVER_ensures(g_bk < xn ==> z->data[__CPROVER_old(z->size) + g_bk] == 0)
__CPROVER_ensures(__CPROVER_return_value == (z->alloc == 0 ? (uint8_t *)NULL : z->data + __CPROVER_old(z->size)))
;

void c_buffer_fixed32(ldb_buffer_t *z, uint32_t x)
__CPROVER_requires(__CPROVER_rw_ok(z, sizeof(*z)) && BUF_PRE(z) && BUF_KEEP_PRE(z))
__CPROVER_assigns(z->data, z->size, z->alloc, __CPROVER_object_upto(z->data, z->alloc))
__CPROVER_frees(z->data)
__CPROVER_ensures(BUF_POST(z) && z->size == __CPROVER_old(z->size) + 4)
__CPROVER_ensures(BUF_GROW_POST(z, z->size, __CPROVER_old(z->data), __CPROVER_old(z->alloc)))
__CPROVER_ensures(BUF_KEEP_POST(z, __CPROVER_old(z->size)))
__CPROVER_ensures(IS_LE32(z->data + __CPROVER_old(z->size), x))
;

void c_buffer_fixed64(ldb_buffer_t *z, uint64_t x)
__CPROVER_requires(BUF_CONTENT_PRE(z, 0))
__CPROVER_requires(__CPROVER_rw_ok(z, sizeof(*z)) && BUF_PRE(z) && BUF_KEEP_PRE(z))
__CPROVER_assigns(z->data, z->size, z->alloc, __CPROVER_object_upto(z->data, z->alloc))
__CPROVER_frees(z->data)
__CPROVER_ensures(BUF_POST(z) && z->size == __CPROVER_old(z->size) + 8)
__CPROVER_ensures(BUF_GROW_POST(z, z->size, __CPROVER_old(z->data), __CPROVER_old(z->alloc)))
__CPROVER_ensures(g_bcontent ==> (BUF_KEEP_POST(z, __CPROVER_old(z->size))))
__CPROVER_ensures(g_bcontent ==> (IS_LE64(z->data + __CPROVER_old(z->size), x)))
;

void c_buffer_varint32(ldb_buffer_t *z, uint32_t x)
__CPROVER_requires(BUF_CONTENT_PRE(z, 0))
__CPROVER_requires(__CPROVER_rw_ok(z, sizeof(*z)) && BUF_PRE(z) && BUF_KEEP_PRE(z))
__CPROVER_assigns(z->data, z->size, z->alloc, __CPROVER_object_upto(z->data, z->alloc))
__CPROVER_frees(z->data)
__CPROVER_ensures(BUF_POST(z) && z->size == __CPROVER_old(z->size) + V32_SIZE(x))
__CPROVER_ensures(BUF_GROW_POST2(z, z->size, __CPROVER_old(z->size) + 5, __CPROVER_old(z->data), __CPROVER_old(z->alloc)))
__CPROVER_ensures(g_bcontent ==> (BUF_KEEP_POST(z, __CPROVER_old(z->size))))
__CPROVER_ensures(g_bcontent ==> (V_WELLFORMED(z->data + __CPROVER_old(z->size), V32_SIZE(x)) && V32_VAL(z->data + __CPROVER_old(z->size), V32_SIZE(x)) == x))
;

void c_buffer_varint64(ldb_buffer_t *z, uint64_t x)
__CPROVER_requires(BUF_CONTENT_PRE(z, 0))
__CPROVER_requires(__CPROVER_rw_ok(z, sizeof(*z)) && BUF_PRE(z) && BUF_KEEP_PRE(z))
__CPROVER_assigns(z->data, z->size, z->alloc, __CPROVER_object_upto(z->data, z->alloc))
__CPROVER_frees(z->data)
__CPROVER_ensures(BUF_POST(z) && z->size == __CPROVER_old(z->size) + V64_SIZE(x))
__CPROVER_ensures(BUF_GROW_POST2(z, z->size, __CPROVER_old(z->size) + 10, __CPROVER_old(z->data), __CPROVER_old(z->alloc)))
__CPROVER_ensures(g_bcontent ==> (BUF_KEEP_POST(z, __CPROVER_old(z->size))))
__CPROVER_ensures(g_bcontent ==> (V_WELLFORMED(z->data + __CPROVER_old(z->size), V64_SIZE(x)) && V64_VAL(z->data + __CPROVER_old(z->size), V64_SIZE(x)) == x))
;

size_t c_buffer_size(const ldb_buffer_t *x)
__CPROVER_requires(__CPROVER_r_ok(x, sizeof(*x)) && x->size <= VERIF_U32_MAX)
__CPROVER_assigns()
__CPROVER_ensures(__CPROVER_return_value == V32_SIZE(x->size) + x->size)
;

uint8_t *c_buffer_write(uint8_t *zp, const ldb_buffer_t *x)
__CPROVER_requires(__CPROVER_r_ok(x, sizeof(*x)) && x->size <= VERIF_U32_MAX && SLICE_OK(x))
__CPROVER_requires(__CPROVER_w_ok(zp, V32_SIZE(x->size) + x->size))
__CPROVER_assigns(__CPROVER_object_from(zp))
__CPROVER_ensures(__CPROVER_pointer_in_range_dfcc(zp, __CPROVER_return_value, zp + V32_SIZE(x->size) + x->size))
__CPROVER_ensures(__CPROVER_return_value == zp + V32_SIZE(x->size) + x->size)
__CPROVER_ensures(LPS_PREFIX_IS(zp, x->size))
__CPROVER_ensures(g_bk < x->size ==> zp[V32_SIZE(x->size) + g_bk] == x->data[g_bk])
;

void c_buffer_export(ldb_buffer_t *z, const ldb_buffer_t *x)
__CPROVER_requires(BUF_CONTENT_PRE(z, x->size))
__CPROVER_requires(__CPROVER_rw_ok(z, sizeof(*z)) && BUF_PRE(z) && BUF_KEEP_PRE(z) && !__CPROVER_same_object(z, x))
__CPROVER_requires(__CPROVER_r_ok(x, sizeof(*x)) && x->size <= VERIF_U32_MAX && SLICE_OK(x))
__CPROVER_assigns(z->data, z->size, z->alloc, __CPROVER_object_upto(z->data, z->alloc))
__CPROVER_frees(z->data)
__CPROVER_ensures(BUF_POST(z))
__CPROVER_ensures(z->size == __CPROVER_old(z->size) + V32_SIZE(x->size) + x->size)
__CPROVER_ensures(BUF_GROW_POST2(z, z->size, __CPROVER_old(z->size) + 5 + x->size, __CPROVER_old(z->data), __CPROVER_old(z->alloc)))
__CPROVER_ensures(g_bcontent ==> (BUF_KEEP_POST(z, __CPROVER_old(z->size))))
__CPROVER_ensures(g_bcontent ==> (LPS_PREFIX_IS(z->data + __CPROVER_old(z->size), x->size)))
__CPROVER_ensures(g_bcontent ==> (g_bk < x->size ==> z->data[__CPROVER_old(z->size) + V32_SIZE(x->size) + g_bk] == x->data[g_bk]))
;

int c_buffer_read(ldb_buffer_t *z, const uint8_t **xp, size_t *xn)
__CPROVER_requires(__CPROVER_rw_ok(z, sizeof(*z)) && BUF_PRE(z) && __CPROVER_rw_ok(xp, sizeof(*xp)) && __CPROVER_rw_ok(xn, sizeof(*xn)))
__CPROVER_requires(__CPROVER_r_ok(*xp, *xn))
__CPROVER_assigns(z->data, z->size, z->alloc, __CPROVER_object_upto(z->data, z->alloc), *xp, *xn)
__CPROVER_frees(z->data)
/* re-binds the advanced cursor to the input object when the contract replaces a call */
__CPROVER_ensures(__CPROVER_pointer_in_range_dfcc(__CPROVER_old(*xp), *xp, __CPROVER_old(*xp) + __CPROVER_old(*xn)))
__CPROVER_ensures(BUF_POST(z))
__CPROVER_ensures(POST_LPS_RET(__CPROVER_return_value, __CPROVER_old(*xp), __CPROVER_old(*xn)))
__CPROVER_ensures(POST_LPS_CURSOR(__CPROVER_return_value, *xp, *xn, __CPROVER_old(*xp), __CPROVER_old(*xn)))
__CPROVER_ensures(POST_LPS_FAIL(__CPROVER_return_value, *xp, *xn, __CPROVER_old(*xp), __CPROVER_old(*xn)))
__CPROVER_ensures(POST_BUFREAD(__CPROVER_return_value, z, __CPROVER_old(*xp), __CPROVER_old(*xn), __CPROVER_old(z->size), __CPROVER_old(z->alloc), __CPROVER_old(z->data)))
;

int c_buffer_slurp(ldb_buffer_t *z, ldb_slice_t *x)
__CPROVER_requires(__CPROVER_rw_ok(z, sizeof(*z)) && BUF_PRE(z) && __CPROVER_rw_ok(x, sizeof(*x)) && !__CPROVER_same_object(z, x))
__CPROVER_requires(__CPROVER_r_ok(x->data, x->size))
__CPROVER_assigns(z->data, z->size, z->alloc, __CPROVER_object_upto(z->data, z->alloc), x->data, x->size)
__CPROVER_frees(z->data)
/* re-binds the advanced cursor to the input object when the contract replaces a call */
__CPROVER_ensures(__CPROVER_pointer_in_range_dfcc(__CPROVER_old(x->data), x->data, __CPROVER_old(x->data) + __CPROVER_old(x->size)))
__CPROVER_ensures(BUF_POST(z) && x->alloc == __CPROVER_old(x->alloc))
__CPROVER_ensures(POST_LPS_RET(__CPROVER_return_value, __CPROVER_old(x->data), __CPROVER_old(x->size)))
__CPROVER_ensures(POST_LPS_CURSOR(__CPROVER_return_value, x->data, x->size, __CPROVER_old(x->data), __CPROVER_old(x->size)))
__CPROVER_ensures(POST_LPS_FAIL(__CPROVER_return_value, x->data, x->size, __CPROVER_old(x->data), __CPROVER_old(x->size)))
__CPROVER_ensures(POST_BUFREAD(__CPROVER_return_value, z, __CPROVER_old(x->data), __CPROVER_old(x->size), __CPROVER_old(z->size), __CPROVER_old(z->alloc), __CPROVER_old(z->data)))
;

int c_buffer_import(ldb_buffer_t *z, const ldb_slice_t *x)
__CPROVER_requires(__CPROVER_rw_ok(z, sizeof(*z)) && BUF_PRE(z) && __CPROVER_r_ok(x, sizeof(*x)) && !__CPROVER_same_object(z, x))
__CPROVER_requires(__CPROVER_r_ok(x->data, x->size))
__CPROVER_assigns(z->data, z->size, z->alloc, __CPROVER_object_upto(z->data, z->alloc))
__CPROVER_frees(z->data)
__CPROVER_ensures(BUF_POST(z))
__CPROVER_ensures(POST_LPS_RET(__CPROVER_return_value, x->data, x->size))
__CPROVER_ensures(POST_BUFREAD(__CPROVER_return_value, z, x->data, x->size, __CPROVER_old(z->size), __CPROVER_old(z->alloc), __CPROVER_old(z->data)))
;

#endif /* !VERIF_NATIVE */
#endif
