/* contracts/blk.h - spec vocabulary + public carriers for src/table/block.c
 *
 * LevelDB table format, data block:
 *   entry   := varint32 shared ‖ varint32 non_shared ‖ varint32 value_len ‖ key_delta[non_shared] ‖ value[value_len]
 *   trailer := LE32 restart[num_restarts] ‖ LE32 num_restarts
 * Everything below is written from that description, not from block.c.
 */
#ifndef VERIF_CONTRACTS_BLK_H
#define VERIF_CONTRACTS_BLK_H

#include <stdint.h>
#include <stddef.h>
#include "contracts/coding.h"
#include "table/block.h"
#include "table/format.h"

/* length of the LEB128 group sequence starting at p when only n bytes are
 * available and a varint32 has at most 5 groups; 0 = no terminator in reach.
 * Short-circuit: never looks at a byte at or after p+n. */
#define BLK_VLEN5(p, n) \
  (((n) >= 1 && !((p)[0] & 128)) ? 1u : ((n) < 2 ? 0u : \
   (!((p)[1] & 128)) ? 2u : ((n) < 3 ? 0u : \
   (!((p)[2] & 128)) ? 3u : ((n) < 4 ? 0u : \
   (!((p)[3] & 128)) ? 4u : ((n) < 5 ? 0u : \
   (!((p)[4] & 128)) ? 5u : 0u)))))

/* the three header varints of an entry in the n bytes at p.  If an earlier one
 * is not decodable the later lengths are 0 too (K1 = 0 makes K2 the same
 * expression as K1, and so on), so K3 != 0 means "all three decodable". */
#define BLK_K1(p, n) BLK_VLEN5(p, n)
#define BLK_K2(p, n) BLK_VLEN5((p) + BLK_K1(p, n), (n) - BLK_K1(p, n))
#define BLK_K12(p, n) (BLK_K1(p, n) + BLK_K2(p, n))
#define BLK_K3(p, n) BLK_VLEN5((p) + BLK_K12(p, n), (n) - BLK_K12(p, n))
#define BLK_HLEN(p, n) (BLK_K12(p, n) + BLK_K3(p, n))
#define BLK_H_SHARED(p, n) V32_VAL(p, BLK_K1(p, n))
#define BLK_H_NONSHARED(p, n) V32_VAL((p) + BLK_K1(p, n), BLK_K2(p, n))
#define BLK_H_VALUELEN(p, n) V32_VAL((p) + BLK_K12(p, n), BLK_K3(p, n))
/* [p, p+n) starts with a complete entry: header, then non_shared + value_len bytes */
#define BLK_ENTRY_OK(p, n) (BLK_K3(p, n) != 0 && \
  (uint64_t)BLK_H_NONSHARED(p, n) + (uint64_t)BLK_H_VALUELEN(p, n) <= (uint64_t)((n) - BLK_HLEN(p, n)))
/* decode_entry: q = result, (s, ns, vl) = outputs */
#define POST_DECODE_ENTRY(q, s, ns, vl, p, n) (BLK_ENTRY_OK(p, n) ? \
  ((q) == (p) + BLK_HLEN(p, n) && (s) == BLK_H_SHARED(p, n) && (ns) == BLK_H_NONSHARED(p, n) && (vl) == BLK_H_VALUELEN(p, n)) : (q) == NULL)

/* ---- block trailer (ldb_block_init) ----
 * well-formed trailer: size >= 4, n = LE32(data+size-4), 4*(1+n) <= size     */
#define BLK_NRESTARTS(d, sz) LE32_AT((d) + ((sz) - 4))
#define BLK_TRAILER_OK(d, sz) ((sz) >= 4 && (uint64_t)BLK_NRESTARTS(d, sz) <= ((uint64_t)(sz) - 4) / 4)
/* b = block after init; (d, sz, heap) = the contents handed in.
 * bad trailer => error marker size = 0 (and restart_offset = 0);
 * good trailer => size kept and restart_offset + 4*(1+n) == size EXACTLY (no
 * 32-bit wrap of (1+n)*4, no truncation of the offset). */
#define POST_BLOCK_INIT_FIELDS(b, d, heap) ((b)->data == (d) && (b)->owned == (heap))
#define POST_BLOCK_INIT_BAD(b, d, sz) (BLK_TRAILER_OK(d, sz) || ((b)->size == 0 && (b)->restart_offset == 0))
#define POST_BLOCK_INIT_GOOD(b, d, sz) (!BLK_TRAILER_OK(d, sz) || ((b)->size == (sz) && \
  (uint64_t)(b)->restart_offset + 4 * (1 + (uint64_t)BLK_NRESTARTS(d, sz)) == (uint64_t)(sz)))
/* Block representation invariant established by a successful init (what the iterator relies on) */
#define BLK_RI(b) ((b)->size == 0 || ((b)->size >= 4 && \
  (uint64_t)(b)->restart_offset + 4 * (1 + (uint64_t)BLK_NRESTARTS((b)->data, (b)->size)) == (uint64_t)(b)->size))

#ifndef VERIF_NATIVE
/* The offset field is 32 bits wide: the exact equation can only hold for
 * blocks below 4 GiB.  (A larger block keeps only the low 32 bits of the
 * offset - see unit blk.init_huge.) */
void c_block_init(ldb_block_t *block, const ldb_contents_t *contents)
__CPROVER_requires(__CPROVER_w_ok(block, sizeof(*block)) && __CPROVER_r_ok(contents, sizeof(*contents)))
__CPROVER_requires(contents->data.size == 0 || __CPROVER_r_ok(contents->data.data, contents->data.size))
__CPROVER_requires(contents->data.size <= 0xffffffffu)
__CPROVER_assigns(block->data, block->size, block->restart_offset, block->owned)
__CPROVER_ensures(POST_BLOCK_INIT_FIELDS(block, contents->data.data, contents->heap_allocated))
__CPROVER_ensures(POST_BLOCK_INIT_BAD(block, contents->data.data, contents->data.size))
__CPROVER_ensures(POST_BLOCK_INIT_GOOD(block, contents->data.data, contents->data.size))
;
#endif

#endif
