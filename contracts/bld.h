/* contracts/bld.h - ghost state of the table-building model and the contract of ldb_build_table
 * (src/builder.c).  Enforced by bld.build (units/bld.c); used in place of the call by rep.log.
 *
 * Input iterator = ghost cursor over an arbitrary sequence of g_bt_n entries (unbounded): entry i
 * has the key slice { g_bt_keybase + i, size_i } and the value slice { g_bt_valbase + i, .. }:
 * distinct entries are distinct pointers, so "which key" is decided by pointer equality.
 * The input iterator reports the fixed, arbitrary status g_bt_in_status.
 * Every environment step (file name, create, finish, sync, close, verification open) can fail.
 */
#ifndef VERIF_CONTRACTS_BLD_H
#define VERIF_CONTRACTS_BLD_H

/* ---- objects handed to ldb_build_table ---- */
struct bld_cursor { unsigned long pos; };
struct bld_cursor g_bt_cursor;        /* position of the input iterator: 0 .. g_bt_n (g_bt_n = not valid)   */
ldb_iter_t g_bt_in_iter;              /* the input iterator object                                          */
ldb_iter_t g_bt_vf_iter;              /* the iterator returned by the table cache for verification          */
unsigned long g_bt_n;                 /* length of the input sequence                                        */
uint8_t *g_bt_keybase, *g_bt_valbase;
int g_bt_in_status;                   /* status() of the input iterator                                      */
const char *g_bt_dbname; const ldb_dbopt_t *g_bt_options; ldb_tables_t *g_bt_cache; ldb_filemeta_t *g_bt_meta;

/* ---- outcomes of the environment steps (chosen by the stubs) ---- */
int g_bt_fname_ok; int g_bt_create_rc, g_bt_finish_rc, g_bt_sync_rc, g_bt_close_rc, g_bt_verify_rc;
uint64_t g_bt_size;                   /* builder's file size after a successful finish (> 0: footer)         */

/* ---- what happened ---- */
unsigned g_bt_firsts, g_bt_fname_calls, g_bt_create_calls, g_bt_b_created, g_bt_b_finished, g_bt_b_abandoned, g_bt_b_destroyed;
unsigned g_bt_size_reads, g_bt_sync_calls, g_bt_close_calls, g_bt_f_destroyed, g_bt_verify_calls, g_bt_vf_destroyed, g_bt_removed;
unsigned long g_bt_adds;              /* entries given to the builder: entry i is the i-th add               */
unsigned g_bt_small_copies, g_bt_large_copies;
const uint8_t *g_bt_small_src, *g_bt_large_src;   /* key the bounds were copied from                        */
uint64_t g_bt_fname_num, g_bt_verify_num, g_bt_verify_size;
char *g_bt_fname;
unsigned long g_bt_clock, g_bt_t_finish, g_bt_t_sync, g_bt_t_close, g_bt_t_verify, g_bt_t_remove;

#define BLD_GHOST g_bt_cursor.pos, g_bt_fname_ok, g_bt_create_rc, g_bt_finish_rc, g_bt_sync_rc, g_bt_close_rc, g_bt_verify_rc, g_bt_size, \
  g_bt_firsts, g_bt_fname_calls, g_bt_create_calls, g_bt_b_created, g_bt_b_finished, g_bt_b_abandoned, g_bt_b_destroyed, \
  g_bt_size_reads, g_bt_sync_calls, g_bt_close_calls, g_bt_f_destroyed, g_bt_verify_calls, g_bt_vf_destroyed, g_bt_removed, \
  g_bt_adds, g_bt_small_copies, g_bt_large_copies, g_bt_small_src, g_bt_large_src, g_bt_fname_num, g_bt_verify_num, g_bt_verify_size, \
  g_bt_fname, g_bt_clock, g_bt_t_finish, g_bt_t_sync, g_bt_t_close, g_bt_t_verify, g_bt_t_remove

#define BLD_GHOST_ZERO (g_bt_firsts == 0 && g_bt_fname_calls == 0 && g_bt_create_calls == 0 && g_bt_b_created == 0 && g_bt_b_finished == 0 && \
  g_bt_b_abandoned == 0 && g_bt_b_destroyed == 0 && g_bt_size_reads == 0 && g_bt_sync_calls == 0 && g_bt_close_calls == 0 && g_bt_f_destroyed == 0 && \
  g_bt_verify_calls == 0 && g_bt_vf_destroyed == 0 && g_bt_removed == 0 && g_bt_adds == 0 && g_bt_small_copies == 0 && g_bt_large_copies == 0 && \
  g_bt_clock == 0 && g_bt_t_finish == 0 && g_bt_t_sync == 0 && g_bt_t_close == 0 && g_bt_t_verify == 0 && g_bt_t_remove == 0)

/* the table file was produced completely: every step up to and including the verification open succeeded */
#define BT_STARTED   (g_bt_fname_ok && g_bt_n > 0 && g_bt_create_rc == LDB_OK)
#define BT_FINISH_OK (BT_STARTED && g_bt_finish_rc == LDB_OK)
#define BT_SYNC_OK   (BT_FINISH_OK && g_bt_sync_rc == LDB_OK)
#define BT_CLOSE_OK  (BT_SYNC_OK && g_bt_close_rc == LDB_OK)
#define BT_ALL_OK    (BT_CLOSE_OK && g_bt_verify_rc == LDB_OK && g_bt_in_status == LDB_OK)
/* status the function must report: a failing input iterator wins, otherwise the first failing step */
#define BT_STEP_RC   (!BT_STARTED ? LDB_OK : g_bt_finish_rc != LDB_OK ? g_bt_finish_rc : g_bt_sync_rc != LDB_OK ? g_bt_sync_rc : \
                      g_bt_close_rc != LDB_OK ? g_bt_close_rc : g_bt_verify_rc)

int c_build_table(const char *dbname, const ldb_dbopt_t *options, ldb_tables_t *table_cache, ldb_iter_t *iter, ldb_filemeta_t *meta)
__CPROVER_requires(__CPROVER_rw_ok(meta, sizeof(*meta)))
__CPROVER_requires(meta == g_bt_meta && iter == &g_bt_in_iter && dbname == g_bt_dbname && options == g_bt_options && table_cache == g_bt_cache)
__CPROVER_requires(BLD_GHOST_ZERO && g_bt_n < (1ul << 40))
__CPROVER_assigns(meta->file_size, BLD_GHOST)
/* -------- nothing to build / nothing could be created -------- */
/* the file name cannot be formed: INVALID, nothing touched */
__CPROVER_ensures(!g_bt_fname_ok ==> (__CPROVER_return_value == LDB_INVALID && meta->file_size == 0 && g_bt_create_calls == 0 && g_bt_removed == 0))
/* empty input: no file is created, no builder; (a possibly stale file of that name is removed); the input iterator's status is the result */
__CPROVER_ensures((g_bt_fname_ok && g_bt_n == 0) ==> (__CPROVER_return_value == g_bt_in_status && meta->file_size == 0 && g_bt_create_calls == 0 && g_bt_b_created == 0 && g_bt_removed == 1))
/* the file cannot be created: that error, nothing else happens */
__CPROVER_ensures((g_bt_fname_ok && g_bt_n > 0 && g_bt_create_rc != LDB_OK) ==> (__CPROVER_return_value == g_bt_create_rc && meta->file_size == 0 && g_bt_b_created == 0 && g_bt_removed == 0 && g_bt_f_destroyed == 0))
__CPROVER_ensures(g_bt_firsts == 1 && g_bt_fname_calls == 1 && g_bt_fname_num == meta->number && meta->number == __CPROVER_old(meta->number))
__CPROVER_ensures(g_bt_create_calls == ((g_bt_fname_ok && g_bt_n > 0) ? 1u : 0u))
/* -------- the table is written -------- */
/* every entry of the input, in order, exactly once (the add stub checks entry i is the i-th add) */
__CPROVER_ensures(BT_STARTED ==> (g_bt_b_created == 1 && g_bt_adds == g_bt_n && g_bt_cursor.pos == g_bt_n))
/* bounds = first and last key delivered */
__CPROVER_ensures(BT_STARTED ==> (g_bt_small_copies == 1 && g_bt_small_src == g_bt_keybase && g_bt_large_copies == 1 && g_bt_large_src == g_bt_keybase + (g_bt_n - 1)))
__CPROVER_ensures(!BT_STARTED ==> (g_bt_small_copies == 0 && g_bt_large_copies == 0 && g_bt_adds == 0))
/* the builder is always finished (never abandoned here) and destroyed; the file object always destroyed */
__CPROVER_ensures(BT_STARTED ==> (g_bt_b_finished == 1 && g_bt_b_abandoned == 0 && g_bt_b_destroyed == 1 && g_bt_f_destroyed == 1))
/* finish -> sync -> close -> verification open, each only if the previous one succeeded (O3) */
__CPROVER_ensures(g_bt_sync_calls == (BT_FINISH_OK ? 1u : 0u) && g_bt_close_calls == (BT_SYNC_OK ? 1u : 0u) && g_bt_verify_calls == (BT_CLOSE_OK ? 1u : 0u))
__CPROVER_ensures(BT_CLOSE_OK ==> (g_bt_t_finish < g_bt_t_sync && g_bt_t_sync < g_bt_t_close && g_bt_t_close < g_bt_t_verify))
__CPROVER_ensures(BT_CLOSE_OK ==> (g_bt_verify_num == meta->number && g_bt_verify_size == g_bt_size && g_bt_vf_destroyed == 1))
/* file_size = the builder's size after a successful finish (> 0), else 0 */
__CPROVER_ensures(meta->file_size == (BT_FINISH_OK ? g_bt_size : 0))
/* -------- result and cleanup -------- */
__CPROVER_ensures((g_bt_fname_ok && !(g_bt_n > 0 && g_bt_create_rc != LDB_OK)) ==> __CPROVER_return_value == (g_bt_in_status != LDB_OK ? g_bt_in_status : BT_STEP_RC))
/* OK with a non-empty table <=> everything succeeded; exactly then the file is kept, in every other case it is removed (E4) */
__CPROVER_ensures((__CPROVER_return_value == LDB_OK && meta->file_size > 0) == (BT_ALL_OK ? 1 : 0))
__CPROVER_ensures(BT_ALL_OK ==> g_bt_removed == 0)
__CPROVER_ensures((BT_STARTED && !BT_ALL_OK) ==> (g_bt_removed == 1 && __CPROVER_return_value != LDB_OK))
__CPROVER_ensures(g_bt_removed ==> (g_bt_t_remove > g_bt_t_verify && g_bt_t_remove > g_bt_t_close && g_bt_t_remove > g_bt_t_finish))
;
#endif
