/* native.c - runtime of the native replay twins (see verif.h). */
#include <stdio.h>
#include <stdlib.h>
#include <string.h>
#include <stdint.h>

int verif_failed = 0;
static char *kv_text = NULL;

static const char *lookup(const char *name) {
  size_t n = strlen(name);
  char *p = kv_text;
  while (p && *p) {
    if (strncmp(p, name, n) == 0 && p[n] == '=')
      return p + n + 1;
    p = strchr(p, '\n');
    if (p) p++;
  }
  return NULL;
}

uint64_t verif_in_u64(const char *name) {
  const char *v = lookup(name);
  if (!v) { printf("replay: no value for %s, using 0\n", name); return 0; }
  if (*v == '-') return (uint64_t)strtoll(v, NULL, 10);
  return strtoull(v, NULL, 10);
}

void verif_in_bytes(const char *name, uint8_t *out, size_t cap) {
  const char *v = lookup(name);
  size_t i = 0;
  memset(out, 0, cap);
  if (!v) { printf("replay: no value for %s, using zeros\n", name); return; }
  while (i < cap && *v && *v != '\n') {
    out[i++] = (uint8_t)strtoul(v, (char **)&v, 10);
    if (*v == ',') v++;
  }
}

#define STR2(x) #x
#define STR(x) STR2(x)
void VERIF_ENTRY(void);

int main(int argc, char **argv) {
  FILE *f;
  long n;
  if (argc < 2) { fprintf(stderr, "usage: replay inputs.kv\n"); return 2; }
  f = fopen(argv[1], "rb");
  if (!f) { perror(argv[1]); return 2; }
  fseek(f, 0, SEEK_END); n = ftell(f); fseek(f, 0, SEEK_SET);
  kv_text = malloc(n + 1);
  if (fread(kv_text, 1, n, f) != (size_t)n) return 2;
  kv_text[n] = 0;
  fclose(f);
  printf("replay of %s on the natively compiled repository code\n", STR(VERIF_ENTRY));
  VERIF_ENTRY();
  printf(verif_failed ? "REPLAY-RESULT reproduced\n" : "REPLAY-RESULT not-reproduced\n");
  return verif_failed ? 1 : 0;
}

uint8_t *verif_native_buf(size_t *np) {
  size_t n = *np;
  size_t cap = n > (1u << 20) ? (1u << 20) : n, i;
  uint8_t *b = calloc(cap + 16, 1);
  char name[16];
  if (cap != n) printf("replay: buffer length %lu capped to %lu\n", (unsigned long)n, (unsigned long)cap);
  *np = cap;
  for (i = 0; i < 16 && i < cap; i++) {
    sprintf(name, "in_b%u", (unsigned)i);
    b[i] = (uint8_t)verif_in_u64(name);
  }
  return b;
}
