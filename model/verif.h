/* verif.h - shared vocabulary of every proof unit.
 *
 * A unit source file compiles two ways:
 *   - under goto-cc (LCDB_VERIF_CBMC): inputs are nondeterministic, CHECK is a
 *     proof obligation, contracts (in /verif/contracts) are CBMC code contracts;
 *   - natively (-DVERIF_NATIVE): the replay twin.  IN_* inputs are read from the
 *     key=value file written from CBMC's counterexample, CHECK evaluates the
 *     same expression on the real compiled code and prints REPLAY-FAIL.
 */
#ifndef LCDB_VERIF_H
#define LCDB_VERIF_H

#include <stddef.h>
#include <stdint.h>
#include <stdlib.h>

#ifdef VERIF_NATIVE

#include <stdio.h>
uint64_t verif_in_u64(const char *name);
void verif_in_bytes(const char *name, uint8_t *out, size_t cap);
extern int verif_failed;
#define IN_U8(name)  uint8_t  name = (uint8_t)verif_in_u64(#name)
#define IN_U32(name) uint32_t name = (uint32_t)verif_in_u64(#name)
#define IN_U64(name) uint64_t name = (uint64_t)verif_in_u64(#name)
#define IN_SIZE(name) size_t  name = (size_t)verif_in_u64(#name)
#define IN_INT(name) int      name = (int)verif_in_u64(#name)
#define IN_BYTES(name, cap) uint8_t name[cap]; verif_in_bytes(#name, name, cap)
#define CHECK(c, msg) do { if (!(c)) { printf("REPLAY-FAIL %s\n", msg); verif_failed = 1; } else printf("replay-ok %s\n", msg); } while (0)
#define ASSUME(c) do { if (!(c)) { printf("replay: input outside the unit's precondition (%s)\n", #c); exit(0); } } while (0)
#define CANARY() ((void)0)

#else /* CBMC */

uint8_t nondet_u8(void);
uint32_t nondet_u32(void);
uint64_t nondet_u64(void);
size_t nondet_size(void);
int nondet_int(void);
#define IN_U8(name)  uint8_t  name = nondet_u8()
#define IN_U32(name) uint32_t name = nondet_u32()
#define IN_U64(name) uint64_t name = nondet_u64()
#define IN_SIZE(name) size_t  name = nondet_size()
#define IN_INT(name) int      name = nondet_int()
#define IN_BYTES(name, cap) uint8_t name[cap]
#define CHECK(c, msg) __CPROVER_assert(c, msg)
#define ASSUME(c) __CPROVER_assume(c)
#ifdef VERIF_CANARY
#define CANARY() __CPROVER_assert(0, "VERIF_CANARY")
#else
#define CANARY() ((void)0)
#endif

#endif

#endif

/* ---- symbolic byte buffers of arbitrary length with replayable prefix ----
 * IN_BUF(buf, n): under CBMC a heap object of symbolic size n with arbitrary
 * content; natively a zero-filled buffer whose first 16 bytes come from the
 * counterexample (in_b0 .. in_b15, recorded by SNAP_BUF after the call). */
#ifndef LCDB_VERIF_BUF
#define LCDB_VERIF_BUF
#ifdef VERIF_NATIVE
uint8_t *verif_native_buf(size_t *n);
#define IN_BUF(buf, n) uint8_t *buf = verif_native_buf(&(n))
#define SNAP_BUF(buf, n) ((void)0)
#else
#define IN_BUF(buf, n) uint8_t *buf = malloc(n); __CPROVER_assume(buf != NULL)
#define SNAP1_(buf, n, i) uint8_t in_b##i = (n) > (i) ? (buf)[i] : 0; (void)in_b##i
#define SNAP_BUF(buf, n) \
  SNAP1_(buf,n,0); SNAP1_(buf,n,1); SNAP1_(buf,n,2); SNAP1_(buf,n,3); \
  SNAP1_(buf,n,4); SNAP1_(buf,n,5); SNAP1_(buf,n,6); SNAP1_(buf,n,7); \
  SNAP1_(buf,n,8); SNAP1_(buf,n,9); SNAP1_(buf,n,10); SNAP1_(buf,n,11); \
  SNAP1_(buf,n,12); SNAP1_(buf,n,13); SNAP1_(buf,n,14); SNAP1_(buf,n,15)
#endif
#endif
